// harvest extracts the string literals of the `in:` fields of the repository's test tables
// (go/parser over *_test.go) into a corpus file, one Go-quoted string per line.
package main

import (
	"fmt"
	"go/ast"
	"go/parser"
	"go/token"
	"os"
	"path/filepath"
	"sort"
	"strconv"
)

func lit(e ast.Expr) (string, bool) {
	switch v := e.(type) {
	case *ast.BasicLit:
		if v.Kind == token.STRING {
			s, err := strconv.Unquote(v.Value)
			return s, err == nil
		}
	case *ast.BinaryExpr:
		if v.Op == token.ADD {
			a, ok1 := lit(v.X)
			b, ok2 := lit(v.Y)
			return a + b, ok1 && ok2
		}
	case *ast.ParenExpr:
		return lit(v.X)
	}
	return "", false
}

func main() {
	dir := os.Args[1]
	files, _ := filepath.Glob(filepath.Join(dir, "*_test.go"))
	seen := map[string]bool{}
	fset := token.NewFileSet()
	for _, f := range files {
		af, err := parser.ParseFile(fset, f, nil, 0)
		if err != nil {
			fmt.Fprintln(os.Stderr, err)
			os.Exit(1)
		}
		ast.Inspect(af, func(n ast.Node) bool {
			kv, ok := n.(*ast.KeyValueExpr)
			if !ok {
				return true
			}
			if id, ok := kv.Key.(*ast.Ident); ok && (id.Name == "in" || id.Name == "input") {
				if s, ok := lit(kv.Value); ok {
					seen[s] = true
				}
			}
			return true
		})
	}
	out := make([]string, 0, len(seen))
	for s := range seen {
		out = append(out, s)
	}
	sort.Strings(out)
	for _, s := range out {
		fmt.Println(strconv.QuoteToASCII(s))
	}
}
