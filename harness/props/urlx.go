package props

import "strings"

// Independent, WHATWG-style reading of a URL attribute value (no net/url involved).

// schemeOf returns the lower-cased scheme a browser's URL parser would find, or abs=false when
// the value is a relative reference. Steps (URL Standard, basic URL parser): strip leading and
// trailing C0 control or space; remove every ASCII tab, LF and CR; then scheme start state /
// scheme state.
func schemeOf(v string) (scheme string, abs bool) {
	v = strings.TrimFunc(v, func(r rune) bool { return r <= 0x20 })
	if strings.ContainsAny(v, "\t\n\r") {
		v = strings.NewReplacer("\t", "", "\n", "", "\r", "").Replace(v)
	}
	for i := 0; i < len(v); i++ {
		c := v[i]
		switch {
		case c >= 'a' && c <= 'z', c >= 'A' && c <= 'Z':
		case i > 0 && (c >= '0' && c <= '9' || c == '+' || c == '-' || c == '.'):
		case c == ':' && i > 0:
			return asciiLower(v[:i]), true
		default:
			return "", false
		}
	}
	return "", false
}

// hasAuthority reports whether the value, read as an href, can take a browser to a host of its own
// ("starts with a protocol and has a host" / scheme-relative with a host). URL Standard, basic URL
// parser: the value is first stripped of leading and trailing C0 control or space and of every
// ASCII tab and newline. For the special schemes that carry an authority (http, https, ftp, ws,
// wss) any run of slashes and backslashes may follow the colon (special authority slashes / ignore
// slashes states), and "http:host" without any slash is an authority too unless the base URL has
// the same scheme -- the base is unknown here, so it counts. A scheme-less reference inherits the
// (special) scheme of the document: two leading slashes or backslashes start an authority, further
// ones are ignored. Every other scheme is read with RFC 3986: "//" authority.
func hasAuthority(v string) bool {
	v = strings.TrimFunc(v, func(r rune) bool { return r <= 0x20 })
	if strings.ContainsAny(v, "\t\n\r") {
		v = strings.NewReplacer("\t", "", "\n", "", "\r", "").Replace(v)
	}
	rest := v
	sch, abs := schemeOf(v)
	if abs {
		rest = v[strings.Index(v, ":")+1:]
	}
	special := abs && (sch == "http" || sch == "https" || sch == "ftp" || sch == "ws" || sch == "wss")
	var auth string
	switch {
	case abs && sch == "file":
		// file state / file slash state / file host state: exactly two slashes or backslashes start
		// a host (which may be empty: file:///x)
		if len(rest) < 2 || !(rest[0] == '/' || rest[0] == '\\') || !(rest[1] == '/' || rest[1] == '\\') {
			return false
		}
		auth = rest[2:]
		if i := strings.IndexAny(auth, "/\\?#"); i >= 0 {
			auth = auth[:i]
		}
	case special || !abs:
		n := 0
		for n < len(rest) && (rest[n] == '/' || rest[n] == '\\') {
			n++
		}
		if !abs && n < 2 {
			return false
		}
		auth = rest[n:]
		if i := strings.IndexAny(auth, "/\\?#"); i >= 0 {
			auth = auth[:i]
		}
	default:
		if !strings.HasPrefix(rest, "//") {
			return false
		}
		auth = rest[2:]
		if i := strings.IndexAny(auth, "/?#"); i >= 0 {
			auth = auth[:i]
		}
	}
	if i := strings.LastIndex(auth, "@"); i >= 0 {
		auth = auth[i+1:]
	}
	if strings.HasPrefix(auth, "[") {
		return strings.Contains(auth, "]")
	}
	if i := strings.LastIndex(auth, ":"); i >= 0 {
		auth = auth[:i]
	}
	return auth != ""
}

func hasCtlOrSpace(v string) bool {
	for i := 0; i < len(v); i++ {
		if v[i] <= 0x20 || v[i] == 0x7f {
			return true
		}
	}
	return false
}
