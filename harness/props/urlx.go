package props

import "strings"

// Independent, WHATWG-style reading of a URL attribute value (no net/url involved).

// schemeOf returns the lower-cased scheme a browser's URL parser would find, or abs=false when
// the value is a relative reference. Steps (URL Standard, basic URL parser): strip leading and
// trailing C0 control or space; remove every ASCII tab, LF and CR; then scheme start state /
// scheme state.
func schemeOf(v string) (scheme string, abs bool) {
	v = strings.TrimFunc(v, func(r rune) bool { return r <= 0x20 })
	if strings.ContainsAny(v, "\t\n\r") {
		v = strings.NewReplacer("\t", "", "\n", "", "\r", "").Replace(v)
	}
	for i := 0; i < len(v); i++ {
		c := v[i]
		switch {
		case c >= 'a' && c <= 'z', c >= 'A' && c <= 'Z':
		case i > 0 && (c >= '0' && c <= '9' || c == '+' || c == '-' || c == '.'):
		case c == ':' && i > 0:
			return asciiLower(v[:i]), true
		default:
			return "", false
		}
	}
	return "", false
}

// hasAuthority is the purely syntactic RFC 3986 reading of "starts with a protocol and has a
// host" / scheme-relative with a host: [scheme ":"] "//" authority with a non-empty host after
// removing userinfo and port.
func hasAuthority(v string) bool {
	// the same preprocessing as schemeOf: an href is a "valid URL potentially surrounded by spaces",
	// and the URL parser drops ASCII tab and newline wherever they stand
	v = strings.TrimFunc(v, func(r rune) bool { return r <= 0x20 })
	if strings.ContainsAny(v, "\t\n\r") {
		v = strings.NewReplacer("\t", "", "\n", "", "\r", "").Replace(v)
	}
	rest := v
	if _, abs := schemeOf(v); abs {
		rest = v[strings.Index(v, ":")+1:]
	}
	if !strings.HasPrefix(rest, "//") {
		return false
	}
	auth := rest[2:]
	if i := strings.IndexAny(auth, "/?#"); i >= 0 {
		auth = auth[:i]
	}
	if i := strings.LastIndex(auth, "@"); i >= 0 {
		auth = auth[i+1:]
	}
	if strings.HasPrefix(auth, "[") {
		return strings.Contains(auth, "]")
	}
	if i := strings.LastIndex(auth, ":"); i >= 0 {
		auth = auth[:i]
	}
	return auth != ""
}

func hasCtlOrSpace(v string) bool {
	for i := 0; i < len(v); i++ {
		if v[i] <= 0x20 || v[i] == 0x7f {
			return true
		}
	}
	return false
}
