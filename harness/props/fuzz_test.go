package props

import (
	"bytes"
	"encoding/json"
	"os"
	"testing"
)

// Native go fuzz targets for the thorough tier. Each target decodes the bytes into (policy
// selector, input) and runs the property's own semantic oracle inside the target; a failure is
// written as a replay file (VERIF_FUZZ_REPLAY_OUT) so that it can be re-run without the fuzzer.

func nr(o Op) Op {
	if !(o.Kind == "AllowAttrs" && o.ValRe > 0) && !(o.Kind == "AllowStyles" && o.Match == "re") && o.Kind != "AllowURLSchemesMatching" {
		o.ValRe = -1
	}
	return o
}

var fuzzSpecs = []*Spec{
	{Base: "UGC"},
	{Base: "Strict"},
	{Base: "UGC", Ops: []Op{nr(Op{Kind: "AllowComments"}), nr(Op{Kind: "AddSpaceWhenStrippingTag", B: true}), nr(Op{Kind: "AllowDataAttributes"}), nr(Op{Kind: "AllowElementsMatching", ElRe: 0}),
		nr(Op{Kind: "AllowAttrs", Attrs: []string{"class"}, Scope: "elre", ElRe: 2, NoAttr: true}), nr(Op{Kind: "AllowElementsContent", Names: []string{"title", "script", "style"}})}},
	{Base: "New", Ops: []Op{nr(Op{Kind: "AllowElements", Names: []string{"b", "i", "p", "a", "img", "textarea", "title", "svg", "math", "table", "td", "tr", "select", "option"}}),
		nr(Op{Kind: "AllowAttrs", Attrs: []string{"href", "src", "title", "id"}, Scope: "global"}), nr(Op{Kind: "AllowStandardURLs"}), nr(Op{Kind: "AddTargetBlankToFullyQualifiedLinks", B: true}),
		nr(Op{Kind: "RequireCrossOriginAnonymous", B: true})}},
	{Base: "New", Ops: []Op{nr(Op{Kind: "AllowElementsMatching", ElRe: 4}), nr(Op{Kind: "AllowNoAttrs", Scope: "elre", ElRe: 9}), nr(Op{Kind: "AllowAttrs", Attrs: []string{"style", "class"}, Scope: "global"}),
		nr(Op{Kind: "AllowStyles", Attrs: []string{"color", "font-family", "background-image", "width"}, Scope: "global"}), nr(Op{Kind: "SkipElementsContent", Names: []string{"div", "br"}})}},
	{Base: "New", Ops: []Op{nr(Op{Kind: "AllowLists"}), nr(Op{Kind: "AllowTables"}), nr(Op{Kind: "AllowImages"}), nr(Op{Kind: "AllowDataURIImages"}), nr(Op{Kind: "AllowIFrames", Vals: []int{2, 10}}),
		nr(Op{Kind: "AllowAttrs", Attrs: []string{"src"}, Scope: "els", Names: []string{"iframe", "video", "source"}}), nr(Op{Kind: "RequireNoReferrerOnLinks", B: true})}},
}

func fuzzProp(f *testing.F, id string, specs []*Spec, filter func(*Spec) bool) {
	p := registry[id]
	var use []*Spec
	for _, s := range specs {
		if filter == nil || filter(s) {
			use = append(use, s)
		}
	}
	for i, s := range corpus {
		if len(s) < 400 {
			f.Add(append([]byte{byte(i)}, s...))
		}
	}
	for _, s := range spliceFrags {
		f.Add(append([]byte{0}, s...))
		f.Add(append([]byte{3}, "<p>"+s+"x</p>"...))
	}
	for _, s := range xssSeeds {
		f.Add(append([]byte{2}, s...))
	}
	f.Fuzz(func(t *testing.T, data []byte) {
		if len(data) == 0 {
			return
		}
		c := &Case{Prop: id, Spec: use[int(data[0])%len(use)], Input: BStr(data[1:]), Kind: "fuzz"}
		if err := runChecked(p, c, nil); err != nil {
			if _, ok := err.(harnessError); ok {
				t.Skip()
			}
			if path := os.Getenv("VERIF_FUZZ_REPLAY_OUT"); path != "" {
				cc := *c
				cc.Clause = err.Error()
				cc.SpecGo = cc.Spec.String()
				var buf bytes.Buffer
				enc := json.NewEncoder(&buf)
				enc.SetEscapeHTML(false)
				enc.SetIndent("", " ")
				_ = enc.Encode(&cc)
				_ = os.WriteFile(path, buf.Bytes(), 0o644)
			}
			t.Fatalf("%s violated: %v\nspec: %v\ninput: %q", id, err, c.Spec, string(c.Input))
		}
	})
}

func FuzzC01(f *testing.F) { fuzzProp(f, "C01", fuzzSpecs, nil) }
func FuzzC02(f *testing.F) { fuzzProp(f, "C02", fuzzSpecs, nil) }
func FuzzC05(f *testing.F) { fuzzProp(f, "C05", fuzzSpecs, nil) }
func FuzzC06(f *testing.F) {
	fuzzProp(f, "C06", fuzzSpecs, func(s *Spec) bool { return !allowsRawText(BuildModel(s)) })
}
func FuzzC14(f *testing.F) { fuzzProp(f, "C14", fuzzSpecs, nil) }
func FuzzC15(f *testing.F) { fuzzProp(f, "C15", fuzzSpecs, nil) }
func FuzzC20(f *testing.F) {
	fuzzProp(f, "C20", fuzzSpecs, func(s *Spec) bool {
		return (s.Base == "UGC" && len(s.Ops) == 0) || s.Base == "Strict" || inC20Class(BuildModel(s))
	})
}

// FuzzC04 drives the shipped policies; the first byte selects strict / ugc-safety.
func FuzzC04(f *testing.F) {
	p := registry["C04"]
	for _, s := range corpus {
		if len(s) < 400 {
			f.Add(append([]byte{1}, s...))
		}
	}
	for _, s := range xssSeeds {
		f.Add(append([]byte{1}, s...))
		f.Add(append([]byte{0}, s...))
	}
	f.Fuzz(func(t *testing.T, data []byte) {
		if len(data) == 0 {
			return
		}
		c := &Case{Prop: "C04", Spec: &Spec{Base: "UGC"}, Input: BStr(data[1:]), Kind: "ugc-safety"}
		if data[0]%4 == 0 {
			c.Kind, c.Spec = "strict", &Spec{Base: "Strict"}
		}
		if err := runChecked(p, c, nil); err != nil {
			if path := os.Getenv("VERIF_FUZZ_REPLAY_OUT"); path != "" {
				cc := *c
				cc.Clause = err.Error()
				b, _ := json.MarshalIndent(&cc, "", " ")
				_ = os.WriteFile(path, b, 0o644)
			}
			t.Fatalf("C04 violated: %v\ninput: %q", err, string(c.Input))
		}
	})
}

// FuzzC03 fuzzes the URL string alone: it is placed at every listed position under a few URL policies.
func FuzzC03(f *testing.F) {
	p := registry["C03"]
	pre := []Op{nr(Op{Kind: "AllowAttrs", Attrs: []string{"href", "cite", "src"}, Scope: "global"}), nr(Op{Kind: "AllowElementsMatching", ElRe: 4})}
	specs := []*Spec{
		{Base: "New", Ops: append(append([]Op{}, pre...), nr(Op{Kind: "AllowStandardURLs"}))},
		{Base: "New", Ops: append(append([]Op{}, pre...), nr(Op{Kind: "AllowURLSchemes", Names: []string{"https", "x-app"}}), nr(Op{Kind: "AllowRelativeURLs", B: false}))},
		{Base: "New", Ops: append(append([]Op{}, pre...), nr(Op{Kind: "AllowDataURIImages"}), nr(Op{Kind: "AllowURLSchemeWithCustomPolicy", Names: []string{"http"}, Fn: 0}), nr(Op{Kind: "AllowURLSchemesMatching", ValRe: 0}))},
	}
	for _, u := range urlVals {
		f.Add([]byte(u))
	}
	for _, s := range schemeSpell {
		for _, r := range restPool[:6] {
			f.Add([]byte(s + ":" + r))
		}
	}
	f.Fuzz(func(t *testing.T, data []byte) {
		u := string(data)
		var sb bytes.Buffer
		for _, pos := range urlPositions {
			sb.WriteString("<" + pos[0] + " " + pos[1] + "=\"" + escAttr(u, '"') + "\">x")
			if !voidEls[pos[0]] {
				sb.WriteString("</" + pos[0] + ">")
			}
		}
		for _, s := range specs {
			c := &Case{Prop: "C03", Spec: s, Input: BStr(sb.String()), Kind: "fuzz"}
			if err := runChecked(p, c, nil); err != nil {
				if path := os.Getenv("VERIF_FUZZ_REPLAY_OUT"); path != "" {
					cc := *c
					cc.Clause = err.Error()
					b, _ := json.MarshalIndent(&cc, "", " ")
					_ = os.WriteFile(path, b, 0o644)
				}
				t.Fatalf("C03 violated: %v\nurl: %q", err, u)
			}
		}
	})
}
