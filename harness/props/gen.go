package props

import (
	"fmt"
	"sort"
	"strings"

	"pgregory.net/rapid"
)

// ---------------------------------------------------------------------------------------------
// G-soup: hostile byte strings biased towards the policy's own vocabulary.

var textFrags = []string{"&#9 b", "&#0x", "&#x;", "&#x100000041;", "&#4294967361;", "&#65", "\ncode\n", "\n", "\n\nx", "img", "input", "br", "link", "hr", "meta", "area", "x", "hello", " ", "&amp;", "&lt;", "&#x3c;b&#x3e;", "&#0;", "&#13;", "\r\n", "\r", "\x00", "&", "<", ">", "\"", "'", "&nbsp", "&ampx;", "É", "\xff", "😀",
	"&#1234567;", "&NewLine;", "a&b", "< b", "<3", "</", "-->", "]]>", "\t", "&#x80;", "&#xD800;", "&notit;", "&not", "&lt", "&#", "&#x", "\xc3", "\xe2\x80", "&amp;lt;", "`", "=", "\n"}

var urlVals = []string{"/%2fa@^@", "http:/%2fa@^@", "/%2f::^@", "/%2Fa@b^@/c", "/search?q=&amp;amp;&amp;x=1", "/p?a=1&ampamp=2", "http://example.com/?a=&amp;lt;b", "http://example.com/", "https://a.b/c?d=e#f", "mailto:a@b.c", "/rel/path", "//host/x", "#frag", "javascript:alert(1)", "JaVaScRiPt:alert(1)", " javascript:alert(1)",
	"java\tscript:alert(1)", "data:text/html,x", "data:image/png;base64,iVBORw0KGgo=", "ftp://x/y", "x-app://open", "http://a b/", "\x01javascript:x", "tel:+123", "http://[::1]/",
	"http:\\\\evil.com", "a/b:c", "%6aavascript:x", "?q=<b>", "http://é.com/é?é#é", "", " ", "http://x/%zz", "http://example.org/ok/1", "https://example.org/no", "HTTP://EXAMPLE.ORG/ok",
	"http://x/?a=1&b=2;c=3", "http://x/?<x>=1", "http://user:pw@h:80/p", "sftp://h/", "tels:1",
	" http://example.com/x", "http://example.com/y ", "http://example.com/z\n", "\thttps://example.org/ok/t", "data:image/png;base64,iVBO\nRw0KGgo=", " /rel/padded ", "\u00a0http://example.com/nbsp",
	"/%2Fevil.com\"", "/%2fevil.com/\u00e9", "/%2F%2Fx\"y", "%2F/x'", "/a/..%2F%2Fb<", "data:\u023a \u023a;base64,A", "DATA:image/png;base64,iVBO\nRw0KGgo=", "DATA:image/png;base64,iVBORw0K GgoAAAAN", "Data:image/png;base64,iVBO Rw0K\tGgo=", "data:image/png;base64,iVBO Rw0KGgo=", "data:\u023e\t;base64,", "http://example.com/?a=1&region=eu&copy=2", "http://example.com/?q=a\u3000#", "data:image/gif;base64,R0lGODlh #", "data:text/html ;base64,PHNjcmlwdD4=", "data:image/png ;base64,iVBO\nRw0K", "data:image/png;x= y;base64,iVBORw0K", "mailto:a@b.c\u00a0#", "tel:+123456\u3000#", "mailto:someone@example.com\u2003#", "%2f/x", "/a%2f..%2fb", "http://example.com/a b#", "http://example.com/#\u00a0", "http://example.com/? #", "/x?y= #"}

var otherVals = []string{"", "1", "42", "50%", "rtl", "en", "a b", "nofollow", "noopener noreferrer", "_blank", "_self", "anonymous", "use-credentials", "allow-scripts allow-forms",
	"allow-scripts allow-scripts x", "Hello, world!", "a<b", "a\"b", "a'b", "a&amp;b", "x y z", "abc", "ABC", "open", "1997-07-16", "left", "color: red", "color:red;background:url(javascript:x)",
	"&#x6a;avascript:alert(1)", "`", "a=b", "center", "top", "circle", "-1.5", "nofollowx", "x<en>", "it's"}

var specials = []string{"<!-- c -->", "<!--><b>-->", "<!--[if IE]><b><![endif]-->", "<!DOCTYPE html>", "<![CDATA[<b>x</b>]]>", "<?xml version=\"1.0\"?>", "<!x>", "</>", "<>", "< a>", "</ a>",
	"<a", "<a href=\"", "<a href='x", "<!--", "<!-", "<![CDATA[", "<!doctype html SYSTEM \"x\"><b>", "<!--x--!>", "<!-- --!><i>", "</ >", "<?", "<!>", "<%x%>", "</#>", "<a/b/c>", "<b/>", "<!---->", "<!--->",
	"<img></img>", "<img/></img>", "<input/></input>", "<input></input>", "<img id=q></img>", "<hr></hr>", "<area></area>x", "<!--&gt;<script>alert(1)</script>-->", "<!---&gt;<img src=x onerror=alert(1)>-->", "<!--&#62;<iframe src=//evil>-->", "<!--&gt;--><b>", "<!--a--&gt;<i>b-->", "<!--a--!&gt;<i>b-->"}

var extraNames = []string{"h3", "my-zzz", "x-q", "sx", "tagged", "u", "em", "scrİpt", "K", "a:b", "svg:a", "b\x00", "1a", "a=b", "a\"b", "a'b", "a<b"}

func mangleCase(t *rapid.T, s string) string {
	if rapid.IntRange(0, 5).Draw(t, "mc") != 0 {
		return s
	}
	b := []byte(s)
	for i := range b {
		if b[i] >= 'a' && b[i] <= 'z' && rapid.Bool().Draw(t, "up") {
			b[i] -= 32
		}
	}
	return string(b)
}

// ruleSamplesByAttr: for every attribute name the policy has value-pattern rules for, the
// accepted and rejected samples of those patterns (so that values sit right at the boundary of
// the policy's own rules).
func ruleSamplesByAttr(m *Model) map[string][]string {
	out := map[string][]string{}
	add := func(k string, rs []rule) {
		for _, r := range rs {
			if r.vi >= 0 {
				out[k] = append(out[k], valRePool[r.vi].good...)
				out[k] = append(out[k], valRePool[r.vi].bad...)
			}
		}
	}
	for _, as := range m.elAttrs {
		for k, rs := range as {
			add(k, rs)
		}
	}
	for _, as := range m.reAttrs {
		for k, rs := range as {
			add(k, rs)
		}
	}
	for k, rs := range m.globAttrs {
		add(k, rs)
	}
	for k := range out {
		sort.Strings(out[k])
	}
	return out
}

// current policy-derived samples for genAttrKV (set by genSoup / genTree for the duration of one
// generation; generation is single-threaded per rapid.T)
var attrSamples map[string][]string

// genAttrKV draws an attribute name and a raw (un-escaped) value.
func genAttrKV(t *rapid.T, attrs []string) (string, string) {
	k := rapid.SampledFrom(attrs).Draw(t, "ak")
	if s := attrSamples[asciiLower(k)]; len(s) > 0 && rapid.IntRange(0, 2).Draw(t, "fromRule") == 0 {
		return k, rapid.SampledFrom(s).Draw(t, "ruleSample")
	}
	var v string
	switch asciiLower(k) {
	case "href", "src", "cite", "xlink:href", "action", "formaction", "background", "poster":
		if rapid.IntRange(0, 3).Draw(t, "uv") != 0 {
			v = rapid.SampledFrom(urlVals).Draw(t, "url")
		} else {
			v = rapid.SampledFrom(otherVals).Draw(t, "ov")
		}
	case "style":
		if rapid.IntRange(0, 2).Draw(t, "sv") != 0 {
			v = genStyle(t)
		} else {
			v = rapid.SampledFrom(otherVals).Draw(t, "ov")
		}
	default:
		switch rapid.IntRange(0, 9).Draw(t, "vk") {
		case 0:
			e := rapid.SampledFrom(valRePool).Draw(t, "vre")
			v = rapid.SampledFrom(e.good).Draw(t, "vgood")
		case 1:
			e := rapid.SampledFrom(valRePool).Draw(t, "vre")
			v = rapid.SampledFrom(e.bad).Draw(t, "vbad")
		default:
			v = rapid.SampledFrom(otherVals).Draw(t, "ov")
		}
	}
	return k, v
}

// genAttr returns one attribute in a random syntax (double/single/unquoted/valueless).
// lookAlike replaces one ASCII letter by a non-ASCII character that Go's strings.ToLower /
// EqualFold (but no HTML parser) folds into it: U+0130 -> i, U+212A -> k, U+017F -> s.
func lookAlike(t *rapid.T, s string) string {
	if rapid.IntRange(0, 7).Draw(t, "lookalike") != 0 {
		return s
	}
	pairs := [][2]string{{"i", "\u0130"}, {"k", "\u212a"}, {"s", "\u017f"}, {"I", "\u0130"}}
	p := rapid.SampledFrom(pairs).Draw(t, "lookpair")
	if i := strings.Index(s, p[0]); i >= 0 {
		return s[:i] + p[1] + s[i+1:]
	}
	return s
}

var dataAttrShapes = []string{"data-a\xef", "data-\xefb", "data-\xff", "data-a\xc0\xa2", "data-\xe2\x80", "data-x", "data-;a", "data-;", "data-a;", "data-A", "data-xmlfoo", "data-xml", "data-", "data-data-x", "data-data-;", "data-\u00e9", "data-a\"b", "data-a'b", "data-a=b",
	"data-x-y", "data-1", "data--", "data-a:b", "DATA-UP", "data-onclick", "data-a<b", "dataset-x", "data"}

// hostile spellings of an attribute name that must not be mistaken for the name itself
func prefixedName(t *rapid.T, k string) string {
	switch rapid.IntRange(0, 15).Draw(t, "nameprefix") {
	case 0:
		return rapid.SampledFrom([]string{"xml:", "xlink:", "xmlns:", "x-", "data-", "aria-", "ng-", ":", "_"}).Draw(t, "pfx") + k
	case 1:
		return k + rapid.SampledFrom([]string{":x", "-x", "x", ";", ".", "\x00"}).Draw(t, "sfx")
	case 2:
		return rapid.SampledFrom(dataAttrShapes).Draw(t, "datashape")
	}
	return k
}

func genAttr(t *rapid.T, attrs []string) string {
	k, v := genAttrKV(t, attrs)
	k = prefixedName(t, lookAlike(t, mangleCase(t, k)))
	switch rapid.IntRange(0, 9).Draw(t, "q") {
	case 0:
		return k
	case 1:
		return k + "=" + strings.NewReplacer(" ", "&#32;", ">", "&gt;", "\t", "&#9;", "\n", "&#10;", "\r", "&#13;", "\f", "&#12;").Replace(v)
	case 2:
		return k + "='" + strings.ReplaceAll(v, "'", "&#39;") + "'"
	case 3:
		return k + " = \"" + strings.ReplaceAll(v, "\"", "&quot;") + "\""
	default:
		return k + "=\"" + strings.ReplaceAll(v, "\"", "&quot;") + "\""
	}
}

type soupOpts struct {
	maxFrags int
	els      []string // extra element names to favour
	attrs    []string
}

func genSoup(t *rapid.T, m *Model, o *soupOpts) string {
	attrSamples = ruleSamplesByAttr(m)
	defer func() { attrSamples = nil }()
	els, attrs := m.vocabulary()
	elChoices := append(append([]string{}, elemPool...), els...)
	elChoices = append(elChoices, els...)
	elChoices = append(elChoices, extraNames...)
	atChoices := append(append([]string{}, attrPool...), attrs...)
	atChoices = append(atChoices, attrs...)
	max := 14
	if o != nil {
		if o.maxFrags > 0 {
			max = o.maxFrags
		}
		for i := 0; i < 3; i++ {
			elChoices = append(elChoices, o.els...)
			atChoices = append(atChoices, o.attrs...)
		}
	}
	// names that are not in the HTML atom table (custom elements): known and unknown ones
	customNames := []string{"my-x", "my-y", "x-a-y", "tag1", "my-zzz", "x-q", "sx", "tagged", "evil-widget", "user-card", "zz", "b-y"}
	for _, e := range els {
		if strings.Contains(e, "-") || atomOf(e) == 0 {
			customNames = append(customNames, e, e)
		}
	}
	n := rapid.IntRange(1, max).Draw(t, "n")
	var sb strings.Builder
	var open []string
	for i := 0; i < n; i++ {
		if rapid.IntRange(0, 19).Draw(t, "customRun") == 0 {
			// a run of consecutive custom-element start tags (no standard element in between)
			for j := rapid.IntRange(2, 3).Draw(t, "runLen"); j > 0; j-- {
				el := rapid.SampledFrom(customNames).Draw(t, "cel")
				sb.WriteString("<" + el)
				for k := rapid.IntRange(0, 2).Draw(t, "cna"); k > 0; k-- {
					sb.WriteString(" " + genAttr(t, atChoices))
				}
				sb.WriteString(">")
				if rapid.Bool().Draw(t, "ctext") {
					sb.WriteString("t</" + el + ">")
				}
			}
			continue
		}
		switch rapid.IntRange(0, 9).Draw(t, "frag") {
		case 0, 1, 2:
			el := lookAlike(t, mangleCase(t, rapid.SampledFrom(elChoices).Draw(t, "el")))
			sb.WriteString("<" + el)
			na := rapid.IntRange(0, 3).Draw(t, "na")
			for j := 0; j < na; j++ {
				sb.WriteString(" " + genAttr(t, atChoices))
			}
			if rapid.IntRange(0, 9).Draw(t, "sc") == 0 {
				sb.WriteString("/")
			}
			sb.WriteString(">")
			open = append(open, el)
		case 3, 4:
			if len(open) > 0 && rapid.IntRange(0, 3).Draw(t, "closeopen") != 0 {
				sb.WriteString("</" + open[len(open)-1] + ">")
				open = open[:len(open)-1]
			} else {
				sb.WriteString("</" + mangleCase(t, rapid.SampledFrom(elChoices).Draw(t, "el")) + ">")
			}
		case 5, 6, 7, 8:
			k := rapid.IntRange(1, 3).Draw(t, "nt")
			for j := 0; j < k; j++ {
				sb.WriteString(rapid.SampledFrom(textFrags).Draw(t, "tx"))
			}
		default:
			sb.WriteString(rapid.SampledFrom(specials).Draw(t, "sp"))
		}
	}
	s := sb.String()
	if rapid.IntRange(0, 9).Draw(t, "trunc") == 0 && len(s) > 0 {
		s = s[:rapid.IntRange(0, len(s)-1).Draw(t, "cut")]
	}
	return s
}

// ---------------------------------------------------------------------------------------------
// G-tree: well-formed documents. Attribute values are always quoted.

type node struct {
	el         string
	attrs      []string // already serialised k="v"
	kids       []*node
	text       string // for text nodes (el == "")
	voidEnd    bool   // void element followed by its own end tag
	selfClosed bool   // non-void element in self-closing syntax, no children
}

type treeGen struct {
	t         *rapid.T
	els       []string
	attrs     []string
	marker    int
	noVoidS   map[string]bool // names never to generate
	plain     bool            // canonical attribute syntax only
	comments  bool            // also generate comment leaves (each with its own marker)
	skipLike  map[string]bool // elements whose content the policy may skip
	inner     []string        // preferred children of such elements (nil: no bias)
	voidEnds  bool            // void elements are now and then followed by their own end tag
	selfClose bool            // childless non-void elements are now and then written <el/>
}

func (g *treeGen) textNode() *node {
	g.marker++
	return &node{text: fmt.Sprintf("MK%04dQ", g.marker)}
}

func quotedAttr(k, v string) string {
	return k + `="` + escAttr(v, '"') + `"`
}

func validTreeName(el string) bool {
	if el == "" || el == "plaintext" {
		return false
	}
	for i := 0; i < len(el); i++ {
		c := el[i]
		// non-ASCII bytes, quotes and backslashes are ordinary tag-name characters for the tokenizer
		if !(c >= 'a' && c <= 'z' || c >= '0' && c <= '9' && i > 0 || c == '-' && i > 0 || (c >= 0x80 || c == '"' || c == '\\') && i > 0) {
			return false
		}
	}
	return true
}

func (g *treeGen) gen(depth int) *node {
	if depth <= 0 || rapid.IntRange(0, 3).Draw(g.t, "leaf") == 0 {
		if g.comments && rapid.IntRange(0, 4).Draw(g.t, "commentLeaf") == 0 {
			g.marker++
			return &node{text: fmt.Sprintf("<!--MK%04dQ-->", g.marker)}
		}
		return g.textNode()
	}
	el := rapid.SampledFrom(g.els).Draw(g.t, "tel")
	if !validTreeName(el) || g.noVoidS[el] {
		el = "div"
	}
	n := &node{el: el}
	na := rapid.IntRange(0, 2).Draw(g.t, "tna")
	for i := 0; i < na; i++ {
		k, v := genAttrKV(g.t, g.attrs)
		n.attrs = append(n.attrs, quotedAttr(k, v))
	}
	if rapid.IntRange(0, 7).Draw(g.t, "unquotedSolidus") == 0 {
		// a last attribute whose unquoted value ends in a solidus (<object data=x/>, <iframe
		// src=https://example.com/embed/>): conforming HTML, a start tag with the solidus in the value
		k, _ := genAttrKV(g.t, g.attrs)
		if !strings.ContainsAny(k, " \t\n\f\r\"'=<>/`\x00") {
			if rapid.IntRange(0, 2).Draw(g.t, "entityNeighbour") == 0 {
				// character references that decode to a quote or white space: the raw text of the tag and
				// its decoded attribute values must not be confused
				n.attrs = append(n.attrs, rapid.SampledFrom([]string{"title=&quot;", "name=x&#32;y", "title=&#39;q", "title=&apos;", "lang=&quot;x&quot;"}).Draw(g.t, "entityAttr"))
			}
			v := rapid.SampledFrom([]string{"x/", "/p/", "https://example.com/embed/", "/", "a//", "5'10\"/", "it's/", " /"}).Draw(g.t, "unquotedSolidusVal")
			n.attrs = append(n.attrs, k+"="+v)
		}
	}
	if voidEls[el] {
		// a void element written with an end tag (<img></img>): every NON-void element is still
		// properly opened and closed. Not for br: </br> is read as <br>.
		n.voidEnd = g.voidEnds && el != "br" && rapid.IntRange(0, 3).Draw(g.t, "voidEnd") == 0
		n.selfClosed = g.voidEnds && rapid.IntRange(0, 3).Draw(g.t, "voidSelfClosed") == 0 // <img ... /> (and <img/></img>)
		return n
	}
	if rawTextEls[el] {
		tn := g.textNode()
		if rapid.IntRange(0, 2).Draw(g.t, "rawTagLike") == 0 {
			// the reference tokenizer reads this as text of the raw-text / RCDATA element
			tn.text += rapid.SampledFrom([]string{" <b> bold", " </i>", "<p>", " <a href=x>l", "</b></b>", " <img src=x>", "<!-- c -->", " < b", " </ >", "<b"}).Draw(g.t, "rawTagText")
		}
		n.kids = []*node{tn}
		return n
	}
	if g.selfClose && !selfCloseUnsafe[el] && rapid.IntRange(0, 7).Draw(g.t, "selfClose") == 0 {
		// <object/>: one self-closing token for the tokenizer, neither opens nor closes anything
		n.selfClosed = true
		if rapid.IntRange(0, 3).Draw(g.t, "selfCloseQuotedTrap") == 0 {
			// a quoted value that, once its character reference is decoded, looks like the end of one
			// value and the start of an unquoted one ending in a solidus: still a self-closing tag
			n.attrs = append(n.attrs, `title='&apos; b=c/'`)
		}
		return n
	}
	nk := rapid.IntRange(0, 3).Draw(g.t, "nk")
	if g.inner != nil && g.skipLike[el] && depth > 1 {
		// inside an element whose content may be skipped: at least one child, and children that are
		// themselves skip-content or allowed elements more often than not (nesting of regions, allowed
		// markup inside a region)
		nk = rapid.IntRange(1, 3).Draw(g.t, "nkSkip")
		saved := g.els
		if rapid.IntRange(0, 2).Draw(g.t, "innerBias") != 0 {
			g.els = g.inner
		}
		for i := 0; i < nk; i++ {
			n.kids = append(n.kids, g.gen(depth-1))
		}
		g.els = saved
		return n
	}
	for i := 0; i < nk; i++ {
		n.kids = append(n.kids, g.gen(depth-1))
	}
	return n
}

// after these the tokenizer switches to raw text / RCDATA whatever the syntax
var selfCloseUnsafe = map[string]bool{"script": true, "style": true, "title": true, "textarea": true, "iframe": true, "noembed": true, "noframes": true, "noscript": true, "xmp": true, "plaintext": true}

func (n *node) write(sb *strings.Builder) {
	if n.el == "" {
		sb.WriteString(n.text)
		return
	}
	sb.WriteString("<" + n.el)
	for _, a := range n.attrs {
		sb.WriteString(" " + a)
	}
	if n.selfClosed {
		if k := len(n.attrs); k > 0 && !strings.HasSuffix(n.attrs[k-1], `"`) {
			sb.WriteString(" ") // keep the solidus out of an unquoted value
		}
		sb.WriteString("/>")
		if voidEls[n.el] && n.voidEnd {
			sb.WriteString("</" + n.el + ">")
		}
		return
	}
	sb.WriteString(">")
	if voidEls[n.el] {
		if n.voidEnd {
			sb.WriteString("</" + n.el + ">")
		}
		return
	}
	for _, k := range n.kids {
		k.write(sb)
	}
	sb.WriteString("</" + n.el + ">")
}

type treeOpts struct {
	selfClose bool
	voidEnds  bool
	comments  bool
	extraEls  []string
	exclude   map[string]bool
	depth     int
}

func genTree(t *rapid.T, m *Model, o *treeOpts) string {
	attrSamples = ruleSamplesByAttr(m)
	defer func() { attrSamples = nil }()
	els, attrs := m.vocabulary()
	g := &treeGen{t: t}
	g.els = append(append(append([]string{}, elemPool...), els...), els...)
	g.els = append(g.els, "my-zzz", "x-q", "h3", "object", "object", "nostyle", "frameset", "sx", "tagged", "x-caf\u00e9", "my-\u00fc", "x-\"q", "my-a\\b")
	g.skipLike = map[string]bool{}
	for _, e := range sortedKeys(m.skip) {
		g.els = append(g.els, e)
		if !rawTextEls[e] && !voidEls[e] {
			g.skipLike[e] = true
			g.inner = append(g.inner, e)
		}
	}
	g.inner = append(g.inner, els...)
	if len(g.inner) == 0 {
		g.inner = nil
	}
	depth := 4
	if o != nil {
		g.els = append(g.els, o.extraEls...)
		g.els = append(g.els, o.extraEls...)
		g.noVoidS = o.exclude
		g.comments = o.comments
		g.voidEnds = o.voidEnds
		g.selfClose = o.selfClose
		if o.depth > 0 {
			depth = o.depth
		}
	}
	g.attrs = append(append([]string{}, attrPool...), attrs...)
	g.attrs = append(g.attrs, attrs...)
	var kids []*node
	nk := rapid.IntRange(1, 3).Draw(t, "rootk")
	for i := 0; i < nk; i++ {
		kids = append(kids, g.gen(depth))
	}
	var sb strings.Builder
	for _, k := range kids {
		k.write(&sb)
	}
	return sb.String()
}

func sortedKeys(m map[string]bool) []string {
	out := make([]string, 0, len(m))
	for k := range m {
		out = append(out, k)
	}
	// insertion sort is fine for these sizes; avoid importing sort twice
	for i := 1; i < len(out); i++ {
		for j := i; j > 0 && out[j] < out[j-1]; j-- {
			out[j], out[j-1] = out[j-1], out[j]
		}
	}
	return out
}

// ---------------------------------------------------------------------------------------------
// style strings (also used inside soup attributes)

var cssValuePool = []string{"attr(\"it's\" \\29 ", "f('a\"b' \\29 ", "\"'\" \\22\\22\\22 ", "'\"' \\29 ", "translate(1px\\)", "rgb(1,2,3\\); width: 1px", "\"\\22\" \"\\22\"", "\"a\\29 b\"", "pin\u212a", "wh\u0130te", "\u212aelvin", "lin\u212a", "rgb(1,2,3\\29", "translate(1px\\29 ", "url(\\22https://example.com/x.png\\22)", "rgb(1,2,3\\29; width: 1px", "calc(1px \\2b 1px\\29", "teal", "plum", "red", "RED", "blue", "re d", "left", "center", "10px", "10PX", "alpha beta", "underline", "underline overline", "1px 2px", "arial", "'times new roman'", "arial, sans-serif",
	"url(http://x.y/z.png)", "url(javascript:alert(1))", "expression(alert(1))", "0.5", "1.0", "", "a b c", "#fff", "rgb(1,2,3)", "x;y", "\"a;b\"", "url(a;b)", "f(a;b)", "a:b", "{a}", "[a]", "a}b",
	"'abc", "a\\", "a\\\nb", "/*c*/red", "red/**/", "r/**/ed", "\u017folid", "\u017fOLID", "bloc\u212a", "da\u017fhed", "solid", "BLOCK", "dashed", "center\u0130", "underl\u0131ne", "URL(/x//*);position:fixed;x:(*/)", "url(/x/ /*); position: fixed; x: (*/)", "url(a \"); position: fixed; x: (\")", "\\75rl(/x//*);top:0;x:(*/)", "a\\3A", "b\\4A c", "c\\5F", "x\\2F\\2A y", "\\3B", "alph\\61\tbeta", "alph\\61\nbeta", "soli\\64\fred", "a\\62\tc", "red !important", "red!IMPORTANT", "red !important !important", "red !important!important", "red ! important", "red !IMPORTANT !important ", "red\\ ", "red \\ ", "1px\\ ", "<b>", "a&b", "@import", "!x", "1px", "none", "2em", "50%", "1px solid red", "1"}
var cssEscPool = []string{`\)`, `\(`, `\) `, `\\62 `, `\72 `, `\72`, `\0072 `, `\000072`, `\000072 `, `\52 `, `\20 `, `\a `, `\9 `, `\d `, `\a0 `, `\5c `, `\5c`, `\10000 `, `\10ffff `, `\110000 `, `\d800 `, `\0 `, `\r`, `\z`, `\;`, `\"`, `\\`,
	`\ `, "\\72  ", "\\72 \t", "\\72\t", "\\72\n", "\\72\n ", "\\6c   ", "\\72\f ", `\3b `, `\3a `, `\28 `, `\2f\2a `, `\2a\2f `, `\2f* `, ` \2a/`, `\27 `, `\22 `, `\27`, `\22`, `\29 `, `\2c `, `\5C `, `\5C`, `\0005c`, `\3A `, `\3A`, `\2F `, `\7D `, `\4C `, `\00003B`, `\6C `, `\6F`, `\5B `, `\62`, `\6C`, `\000020`, `\00000a`}
var cssPropSpell = []string{"w\u0130dth", "W\u0130DTH", "text-al\u0130gn", "color", "COLOR", "Color", "-webkit-color", "-moz-color", "mso-color", "font-family", "text-decoration", "margin", "background-image", "opacity", "nosuchprop", "text-align",
	"width", "x-any", "x-kw", "bogus", "col\\6fr", "-webkit--moz-color", "prince-width", "", "a b", "background", "font-size", "border", "animation", "filter", "list-style", "transition", "height", "float",
	"-o-text-align", "-ms-width"}

func genCSSValue(t *rapid.T) string {
	v := rapid.SampledFrom(cssValuePool).Draw(t, "val")
	n := rapid.IntRange(0, 2).Draw(t, "nesc")
	if rapid.IntRange(0, 2).Draw(t, "escany") != 0 {
		n = 0
	}
	for i := 0; i < n; i++ {
		e := rapid.SampledFrom(cssEscPool).Draw(t, "esc")
		pos := rapid.IntRange(0, len(v)).Draw(t, "epos")
		v = v[:pos] + e + v[pos:]
	}
	return v
}

func genStyleFrom(t *rapid.T, props []string) string {
	n := rapid.IntRange(1, 4).Draw(t, "ndecl")
	var parts []string
	for i := 0; i < n; i++ {
		p := rapid.SampledFrom(props).Draw(t, "prop")
		if len(p) > 1 && rapid.IntRange(0, 9).Draw(t, "infix") == 0 {
			// a vendor-prefix string in the middle or at the end of the name is NOT a vendor prefix
			pos := rapid.IntRange(1, len(p)).Draw(t, "infixpos")
			p = p[:pos] + rapid.SampledFrom([]string{"-webkit-", "-moz-", "-o-", "-ms-", "mso-", "prince-", "-khtml-"}).Draw(t, "infixpfx") + p[pos:]
		}
		sep := rapid.SampledFrom([]string{":", ": ", " : ", ":"}).Draw(t, "colon")
		parts = append(parts, p+sep+genCSSValue(t))
	}
	s := strings.Join(parts, rapid.SampledFrom([]string{";", "; ", ";", " ;\n"}).Draw(t, "semi"))
	switch rapid.IntRange(0, 7).Draw(t, "tail") {
	case 0:
		s += ";"
	case 1:
		s += rapid.SampledFrom([]string{"; junk", ";;", "}", "; x:", "\\", " /* open", "; color", ";:red", "; {color:red}"}).Draw(t, "junk")
	}
	return s
}

func genStyle(t *rapid.T) string { return genStyleFrom(t, cssPropSpell) }
