package props

import (
	"strings"

	"golang.org/x/net/html"
)

// An independent reading of NUMERIC character references, transcribed from the HTML Standard
// (13.2.5.75 numeric character reference state ... 13.2.5.80 numeric character reference end
// state). Named references are left to the reference library. Used by C06 to see whether the text a
// standard tokenizer reads from the output equals the text it reads from the input where the
// tokenizer in use (golang.org/x/net/html) decodes a numeric reference differently.

var win1252 = map[int]rune{0x80: 0x20AC, 0x82: 0x201A, 0x83: 0x0192, 0x84: 0x201E, 0x85: 0x2026, 0x86: 0x2020, 0x87: 0x2021, 0x88: 0x02C6, 0x89: 0x2030,
	0x8A: 0x0160, 0x8B: 0x2039, 0x8C: 0x0152, 0x8E: 0x017D, 0x91: 0x2018, 0x92: 0x2019, 0x93: 0x201C, 0x94: 0x201D, 0x95: 0x2022, 0x96: 0x2013,
	0x97: 0x2014, 0x98: 0x02DC, 0x99: 0x2122, 0x9A: 0x0161, 0x9B: 0x203A, 0x9C: 0x0153, 0x9E: 0x017E, 0x9F: 0x0178}

// stdDecodeText decodes the character references of a run of text (data state or RCDATA state) as
// the standard does for numeric references, and as the reference library does for named ones.
func stdDecodeText(raw string) string {
	var sb strings.Builder
	for i := 0; i < len(raw); {
		if raw[i] != '&' {
			sb.WriteByte(raw[i])
			i++
			continue
		}
		if i+1 < len(raw) && raw[i+1] == '#' {
			j := i + 2
			hex := false
			if j < len(raw) && (raw[j] == 'x' || raw[j] == 'X') {
				hex = true
				j++
			}
			start, code, big := j, 0, false
			for j < len(raw) {
				c := raw[j]
				d := -1
				switch {
				case c >= '0' && c <= '9':
					d = int(c - '0')
				case hex && c >= 'a' && c <= 'f':
					d = int(c-'a') + 10
				case hex && c >= 'A' && c <= 'F':
					d = int(c-'A') + 10
				}
				if d < 0 {
					break
				}
				if hex {
					code = code*16 + d
				} else {
					code = code*10 + d
				}
				if code > 0x10FFFF {
					big = true
					code = 0x110000
				}
				j++
			}
			if j == start {
				// absence of digits: the characters are flushed as they are
				sb.WriteString(raw[i:j])
				i = j
				continue
			}
			if j < len(raw) && raw[j] == ';' {
				j++
			}
			switch {
			case code == 0, big, code >= 0xD800 && code <= 0xDFFF:
				sb.WriteRune(0xFFFD)
			default:
				if r, ok := win1252[code]; ok {
					sb.WriteRune(r)
				} else {
					sb.WriteRune(rune(code))
				}
			}
			i = j
			continue
		}
		// a named reference (or a bare ampersand): the longest run of ASCII alphanumerics and an
		// optional semicolon, decoded by the reference library
		j := i + 1
		for j < len(raw) && (raw[j] >= '0' && raw[j] <= '9' || raw[j] >= 'a' && raw[j] <= 'z' || raw[j] >= 'A' && raw[j] <= 'Z') {
			j++
		}
		if j < len(raw) && raw[j] == ';' {
			j++
		}
		sb.WriteString(html.UnescapeString(raw[i:j]))
		i = j
	}
	return sb.String()
}

// stdTextOf concatenates the text a standard tokenizer reads: character references decoded in
// data and RCDATA text, not in the raw text of xmp, iframe, noembed, noframes, noscript, plaintext,
// script and style. CR and CRLF are normalised to LF, as the input stream preprocessor does.
func stdTextOf(toks []tok) string {
	var sb strings.Builder
	rawEl, rcdata := false, false
	for _, t := range toks {
		switch t.Type {
		case html.TextToken:
			// (the input stream preprocessor turns CR and CRLF into LF before anything is decoded;
			// a CR that comes out of &#13; stays)
			raw := strings.ReplaceAll(strings.ReplaceAll(t.Raw, "\r\n", "\n"), "\r", "\n")
			if rawEl || rcdata {
				// RCDATA, RAWTEXT and script data states: U+0000 is emitted as U+FFFD (the data state
				// emits it as it is)
				raw = strings.ReplaceAll(raw, "\x00", "\uFFFD")
			}
			if rawEl {
				sb.WriteString(raw)
			} else {
				sb.WriteString(stdDecodeText(raw))
			}
			rawEl, rcdata = false, false
		case html.StartTagToken, html.SelfClosingTagToken:
			rawEl = rawTextEls[t.Name] && t.Name != "title" && t.Name != "textarea" || t.Name == "script" || t.Name == "style" || t.Name == "plaintext"
			rcdata = t.Name == "title" || t.Name == "textarea"
		default:
			rawEl, rcdata = false, false
		}
	}
	return sb.String()
}
