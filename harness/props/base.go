// Package props holds the generators, independent readers and oracles that
// decide the twenty bluemonday properties listed in /verif/properties.jsonl.
//
// Every property is written as a pair
//
//	gen(*rapid.T) *Case      — draws a case (all randomness comes from rapid)
//	check(*Case, *Rec) error — deterministic oracle; a non-nil error is a violation
//
// so that a saved case can be replayed without the library (TestReplay).
package props

import (
	"bytes"
	"encoding/json"
	"fmt"
	"hash/fnv"
	"os"
	"sort"
	"strconv"
	"strings"
	"sync"
	"testing"
	"time"

	"pgregory.net/rapid"
)

// BStr is a byte string that survives JSON byte for byte: it is stored as a Go
// quoted ASCII literal (strconv.QuoteToASCII), so NULs and invalid UTF-8 are kept.
type BStr string

func (b BStr) MarshalJSON() ([]byte, error) {
	return json.Marshal(strconv.QuoteToASCII(string(b)))
}

func (b *BStr) UnmarshalJSON(d []byte) error {
	var q string
	if err := json.Unmarshal(d, &q); err != nil {
		return err
	}
	s, err := strconv.Unquote(q)
	if err != nil {
		return fmt.Errorf("BStr: %v in %q", err, q)
	}
	*b = BStr(s)
	return nil
}

// Case is one generated (or replayed) test case. Which fields are used depends
// on the property.
type Case struct {
	Prop   string  `json:"property"`
	Spec   *Spec   `json:"spec,omitempty"`
	Specs  []*Spec `json:"specs,omitempty"`
	Input  BStr    `json:"input,omitempty"`
	Inputs []BStr  `json:"inputs,omitempty"`
	Ints   []int   `json:"ints,omitempty"`
	Strs   []BStr  `json:"strs,omitempty"`
	Kind   string  `json:"kind,omitempty"`
	Steps  []Step  `json:"steps,omitempty"`
	// filled in when a violation is saved
	Clause string `json:"violated_clause,omitempty"`
	Output BStr   `json:"observed_output,omitempty"`
	SpecGo string `json:"spec_as_go,omitempty"`
}

// Prop is a registered property check.
type Prop struct {
	ID    string
	Gen   func(t *rapid.T) *Case
	Check func(c *Case, r *Rec) error
	// Fixed, when set, is a deterministic (non-rapid) campaign used instead of /
	// in addition to Gen (bounded-exhaustive properties C18, C19 and the C14 families).
	Fixed func(r *Rec, tier string, shard, nshards int) []*Case
}

var registry = map[string]*Prop{}

func register(p *Prop) { registry[p.ID] = p }

// ---------------------------------------------------------------------------------------------
// Recorder: what a run actually covered.

type Rec struct {
	mu       sync.Mutex
	prop     string
	evals    int
	nt       map[uint64]struct{}
	ntCap    int
	ntTotal  int
	classes  map[string]int
	excluded map[string]int
	samples  []any
	extra    map[string]any
	start    time.Time
	// set by check functions for the case at hand
	sampleEvery int
}

func NewRec(prop string) *Rec {
	return &Rec{prop: prop, nt: map[uint64]struct{}{}, ntCap: 400000, classes: map[string]int{}, excluded: map[string]int{}, extra: map[string]any{}, start: time.Now()}
}

func (r *Rec) Eval() {
	if r == nil {
		return
	}
	r.mu.Lock()
	r.evals++
	r.mu.Unlock()
}

func (r *Rec) EvalN(n int) {
	if r == nil {
		return
	}
	r.mu.Lock()
	r.evals += n
	r.mu.Unlock()
}

func (r *Rec) Class(name string) {
	if r == nil {
		return
	}
	r.mu.Lock()
	r.classes[name]++
	r.mu.Unlock()
}

func (r *Rec) ClassN(name string, n int) {
	if r == nil || n == 0 {
		return
	}
	r.mu.Lock()
	r.classes[name] += n
	r.mu.Unlock()
}

func (r *Rec) Excluded(class string) {
	if r == nil {
		return
	}
	r.mu.Lock()
	r.excluded[class]++
	r.mu.Unlock()
}

func (r *Rec) SetExtra(k string, v any) {
	if r == nil {
		return
	}
	r.mu.Lock()
	r.extra[k] = v
	r.mu.Unlock()
}

func hash64(s string) uint64 {
	h := fnv.New64a()
	h.Write([]byte(s))
	return h.Sum64()
}

// NonTrivial records that the case identified by key met the property's
// non-triviality rule. sample is only called when a sample slot is free.
func (r *Rec) NonTrivial(key string, sample func() any) {
	if r == nil {
		return
	}
	h := hash64(key)
	r.mu.Lock()
	defer r.mu.Unlock()
	r.ntTotal++
	if _, ok := r.nt[h]; ok {
		return
	}
	if len(r.nt) < r.ntCap {
		r.nt[h] = struct{}{}
	}
	// keep samples spread over the run: the 1st, 10th, 100th, ... distinct NT case and a few early ones
	n := len(r.nt)
	if sample != nil && len(r.samples) < 8 && (n <= 3 || n == 10 || n == 100 || n == 1000 || n == 10000 || n == 100000) {
		r.samples = append(r.samples, sample())
	}
}

type partFile struct {
	Prop       string         `json:"property_id"`
	Evals      int            `json:"evaluations"`
	NTHashes   []string       `json:"nt_hashes"`
	NTTotal    int            `json:"nontrivial_with_duplicates"`
	Classes    map[string]int `json:"classes"`
	Excluded   map[string]int `json:"excluded_known"`
	Samples    []any          `json:"samples"`
	Extra      map[string]any `json:"extra"`
	WallS      float64        `json:"wall_s"`
	Violations int            `json:"violations"`
}

func (r *Rec) writePart(violations int) {
	path := os.Getenv("VERIF_PART")
	if r == nil || path == "" {
		return
	}
	r.mu.Lock()
	defer r.mu.Unlock()
	pf := partFile{Prop: r.prop, Evals: r.evals, NTTotal: r.ntTotal, Classes: r.classes, Excluded: r.excluded, Samples: r.samples, Extra: r.extra,
		WallS: time.Since(r.start).Seconds(), Violations: violations}
	hs := make([]uint64, 0, len(r.nt))
	for h := range r.nt {
		hs = append(hs, h)
	}
	sort.Slice(hs, func(i, j int) bool { return hs[i] < hs[j] })
	// the driver unions hashes across shards; cap what is shipped
	if len(hs) > 120000 {
		hs = hs[:120000]
		pf.Extra["nt_hashes_truncated_to"] = 120000
		pf.Extra["nt_distinct_in_shard"] = len(r.nt)
	}
	for _, h := range hs {
		pf.NTHashes = append(pf.NTHashes, strconv.FormatUint(h, 36))
	}
	b, err := json.Marshal(pf)
	if err != nil {
		fmt.Fprintf(os.Stderr, "evidence part: %v\n", err)
		return
	}
	if err := os.WriteFile(path, b, 0o644); err != nil {
		fmt.Fprintf(os.Stderr, "evidence part: %v\n", err)
	}
}

// ---------------------------------------------------------------------------------------------
// Violations and replay files.

type Violation struct {
	Clause string
	Output string
}

func (v *Violation) Error() string { return v.Clause }

func violation(out string, format string, a ...any) error {
	return &Violation{Clause: fmt.Sprintf(format, a...), Output: out}
}

func saveReplay(c *Case, err error) {
	path := os.Getenv("VERIF_REPLAY_OUT")
	if path == "" {
		return
	}
	cc := *c
	cc.Clause = err.Error()
	if v, ok := err.(*Violation); ok {
		cc.Output = BStr(v.Output)
	}
	if cc.Spec != nil {
		cc.SpecGo = cc.Spec.String()
	}
	var buf bytes.Buffer
	enc := json.NewEncoder(&buf)
	enc.SetEscapeHTML(false)
	enc.SetIndent("", " ")
	_ = enc.Encode(&cc)
	_ = os.WriteFile(path, buf.Bytes(), 0o644)
}

func loadCase(path string) (*Case, error) {
	b, err := os.ReadFile(path)
	if err != nil {
		return nil, err
	}
	var c Case
	if err := json.Unmarshal(b, &c); err != nil {
		return nil, fmt.Errorf("%s: %v", path, err)
	}
	return &c, nil
}

// runChecked runs the oracle and converts a panic of the harness or of the code
// under test into an error (C14 reports panics of the code under test itself;
// elsewhere they surface as "panic:" violations, which is still a real failure
// of the call).
func runChecked(p *Prop, c *Case, r *Rec) (err error) {
	defer func() {
		if x := recover(); x != nil {
			if msg, ok := x.(string); ok && strings.HasPrefix(msg, "HARNESS-ERROR") {
				err = harnessError(msg)
				return
			}
			err = violation("", "panic during check: %v", x)
		}
	}()
	return p.Check(c, r)
}

// harnessError marks failures of the machinery itself (never a violation).
type harnessError string

func (h harnessError) Error() string { return string(h) }

// runProp is the body of every TestCxx.
func runProp(t *testing.T, id string) {
	p := registry[id]
	if p == nil {
		t.Fatalf("no such property %s", id)
	}
	rec := NewRec(id)
	violations := 0
	defer func() { rec.writePart(violations) }()
	tier := os.Getenv("VERIF_TIER")
	if tier == "" {
		tier = "quick"
	}
	shard, _ := strconv.Atoi(os.Getenv("VERIF_SHARD"))
	nshards, _ := strconv.Atoi(os.Getenv("VERIF_NSHARDS"))
	if nshards <= 0 {
		nshards = 1
	}
	if p.Fixed != nil {
		fails := p.Fixed(rec, tier, shard, nshards)
		for i, c := range fails {
			// Fixed returns the (already minimised) failing cases it found; the first becomes the replay
			violations++
			if i == 0 {
				saveReplay(c, &Violation{Clause: c.Clause, Output: string(c.Output)})
			}
			t.Errorf("%s violated: %s", id, c.Clause)
		}
		if len(fails) > 0 {
			return
		}
	}
	if p.Gen == nil {
		return
	}
	if os.Getenv("VERIF_SKIP_RAPID") != "" {
		return
	}
	defer func() {
		if t.Failed() {
			violations++
		}
	}()
	rapid.Check(t, func(rt *rapid.T) {
		c := p.Gen(rt)
		c.Prop = id
		rec.Eval()
		if err := runChecked(p, c, rec); err != nil {
			if _, ok := err.(harnessError); ok {
				rt.Fatalf("%v", err)
			}
			saveReplay(c, err)
			rt.Fatalf("%s violated: %v\nspec: %v\ninput: %q", id, err, c.Spec, string(c.Input))
		}
	})
}

// asciiLower lower-cases ASCII letters only (Go's ToLower folds U+0130 and the
// Kelvin sign into ASCII, which no HTML parser does).
func asciiLower(s string) string {
	for i := 0; i < len(s); i++ {
		if c := s[i]; c >= 'A' && c <= 'Z' {
			b := []byte(s)
			for j := i; j < len(b); j++ {
				if b[j] >= 'A' && b[j] <= 'Z' {
					b[j] += 32
				}
			}
			return string(b)
		}
	}
	return s
}

func trunc(s string, n int) string {
	if len(s) <= n {
		return s
	}
	return s[:n] + "…"
}

func q(s string) string { return strconv.QuoteToASCII(s) }
