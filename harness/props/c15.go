package props

import (
	"bytes"
	"fmt"
	"io"
	"os"
	"os/exec"
	"path/filepath"
	"regexp"
	"strings"
	"sync"
	"unicode"

	"github.com/microcosm-cc/bluemonday"
	"pgregory.net/rapid"
)

// C15 — all entry points agree, independent of chunking and writer type; the bundled
// command-line tools write exactly the library result of their documented policy.

// chunkReader delivers data in chunks of the given sizes (cycled). A size of 0 is a zero-length
// read (never more than a few in a row). With eofWithData the last chunk arrives together with
// io.EOF.
type chunkReader struct {
	data        []byte
	sizes       []int
	i           int
	eofWithData bool
	splits      []int // offsets at which a chunk ended
	off         int
}

func (r *chunkReader) Read(p []byte) (int, error) {
	if len(r.data) == 0 {
		return 0, io.EOF
	}
	n := len(r.data)
	if len(r.sizes) > 0 {
		n = r.sizes[r.i%len(r.sizes)]
		r.i++
	}
	if n == 0 {
		return 0, nil
	}
	if n > len(r.data) {
		n = len(r.data)
	}
	if n > len(p) {
		n = len(p)
	}
	copy(p, r.data[:n])
	r.data = r.data[n:]
	r.off += n
	if len(r.data) > 0 {
		r.splits = append(r.splits, r.off)
	}
	if len(r.data) == 0 && r.eofWithData {
		return n, io.EOF
	}
	return n, nil
}

// plainW hides bytes.Buffer's WriteString.
type plainW struct{ b *bytes.Buffer }

func (w plainW) Write(p []byte) (int, error) { return w.b.Write(p) }

func genC15(t *rapid.T) *Case {
	c := &Case{}
	if rapid.IntRange(0, 60).Draw(t, "cli") == 0 {
		c.Kind = rapid.SampledFrom([]string{"cli-ugc", "cli-email"}).Draw(t, "which")
		c.Spec = &Spec{Base: "UGC"}
		m := BuildModel(c.Spec)
		switch rapid.IntRange(0, 3).Draw(t, "cliInput") {
		case 0:
			c.Input = BStr(rapid.SliceOfN(rapid.Byte(), 0, 300).Draw(t, "bytes"))
		case 1:
			c.Input = BStr(rapid.SampledFrom([]string{"", " ", "\n", "\t \r\n", "x\n", "<b>x</b>\n", "%s %d", "\xff\xfe", "\x00"}).Draw(t, "special"))
		default:
			c.Input = BStr(genSoup(t, m, &soupOpts{els: []string{"font", "html", "body", "title", "style", "button", "a", "img"}, attrs: []string{"style", "color", "bgcolor", "border", "type", "href", "src", "class", "cellpadding", "cellspacing", "align", "width", "height", "valign", "id", "title", "alt", "rel", "target"}}))
		}
		return c
	}
	if rapid.IntRange(0, 9).Draw(t, "overlap") == 0 {
		// several element patterns (some compiled twice) that match the same element with different
		// attribute and style rules: the four entry points must merge them the same way on every call
		o := genC13Overlap(t)
		c.Spec = o.Spec
		for _, in := range o.Inputs[:rapid.IntRange(1, 4).Draw(t, "novl")] {
			c.Input += in
		}
		return c
	}
	c.Spec = genSpec(t, nil)
	m := BuildModel(c.Spec)
	switch rapid.IntRange(0, 11).Draw(t, "inputKind") {
	case 11:
		// a single very large token (text run, attribute value or comment) between ordinary soup:
		// destinations that buffer or coalesce writes must keep the order
		unit := rapid.SampledFrom([]string{"long text ", "x", "&amp;", "é", "a b c d e f g h "}).Draw(t, "unit")
		lim := 12000
		if rapid.IntRange(0, 4).Draw(t, "huge") == 0 {
			lim = 250000
		}
		n := rapid.IntRange(1, lim/len(unit)).Draw(t, "reps")
		big := strings.Repeat(unit, n)
		switch rapid.IntRange(0, 2).Draw(t, "bigKind") {
		case 0:
		case 1:
			big = `<p title="` + big + `">t</p>`
		default:
			big = "<!--" + big + "-->"
		}
		c.Input = BStr(genSoup(t, m, &soupOpts{maxFrags: 4}) + big + genSoup(t, m, &soupOpts{maxFrags: 4}))
	case 10:
		c.Input = BStr(genCorpusMutation(t))
	case 0:
		c.Input = BStr(rapid.SliceOfN(rapid.Byte(), 0, 120).Draw(t, "bytes"))
	case 1:
		c.Input = BStr(rapid.SampledFrom([]string{"", " ", "\n", "\t \r\n", " ", "  ", "\r", " \x00", "\v\f", "\u0085"}).Draw(t, "blank"))
	default:
		c.Input = BStr(genSoup(t, m, nil))
	}
	if rapid.IntRange(0, 7).Draw(t, "prefix") == 0 {
		// byte-order marks and other multi-byte sequences at the very start: whatever is done with
		// them must not depend on how many bytes the first Read returns
		c.Input = BStr(rapid.SampledFrom([]string{"\ufeff", "\ufeff\ufeff", "\xef\xbb", "\xff\xfe", "\xfe\xff", "\u2028", "\x00", "\xef\xbb\xbf<", "\r\n", "\ufeff \r"}).Draw(t, "bom")) + c.Input
	}
	n := rapid.IntRange(1, 6).Draw(t, "nsizes")
	zeros := 0
	for i := 0; i < n; i++ {
		s := rapid.IntRange(0, 7).Draw(t, "chunk")
		if s == 0 {
			zeros++
			if zeros > 2 {
				s = 1
			}
		}
		c.Ints = append(c.Ints, s)
	}
	// at least one positive size so that the reader makes progress
	c.Ints = append(c.Ints, rapid.IntRange(1, 9).Draw(t, "lastchunk"))
	if rapid.Bool().Draw(t, "eofWithData") {
		c.Ints = append([]int{-1}, c.Ints...)
	}
	return c
}

func isBlank(s string) bool { return strings.TrimFunc(s, unicode.IsSpace) == "" }

func checkC15(c *Case, r *Rec) error {
	if strings.HasPrefix(c.Kind, "cli-") {
		return checkCLI(c, r)
	}
	in := string(c.Input)
	p := Build(c.Spec, nil)
	sizes := c.Ints
	eofWithData := false
	if len(sizes) > 0 && sizes[0] == -1 {
		eofWithData, sizes = true, sizes[1:]
	}
	s := p.Sanitize(in)
	orig := []byte(in)
	buf := append([]byte{}, orig...)
	b := p.SanitizeBytes(buf)
	bs := string(b)
	if !bytes.Equal(buf, orig) {
		return violation(bs, "C15: SanitizeBytes modified the caller's input buffer")
	}
	// SanitizeBytes must not hand back memory that aliases a modified input either
	cr := &chunkReader{data: []byte(in), sizes: sizes, eofWithData: eofWithData}
	rd := p.SanitizeReader(cr).String()
	var w1 bytes.Buffer
	if err := p.SanitizeReaderToWriter(&chunkReader{data: []byte(in), sizes: sizes, eofWithData: eofWithData}, plainW{&w1}); err != nil {
		return violation("", "C15: SanitizeReaderToWriter (plain io.Writer) fails on a fault-free source: %v", err)
	}
	var w2 bytes.Buffer
	if err := p.SanitizeReaderToWriter(&chunkReader{data: []byte(in), sizes: sizes, eofWithData: eofWithData}, &w2); err != nil {
		return violation("", "C15: SanitizeReaderToWriter (io.StringWriter) fails on a fault-free source: %v", err)
	}
	wholeBuf := p.SanitizeReader(strings.NewReader(in))
	whole := wholeBuf.String()
	// results handed to the caller stay what they were while further calls run (no aliasing of
	// pooled or shared buffers)
	bBefore, rdBuf := string(b), p.SanitizeReader(bytes.NewReader([]byte(in)))
	rdBefore := rdBuf.String()
	other := append(append([]byte{}, interferingInput...), in...)
	p.SanitizeBytes(other)
	p.Sanitize(string(other))
	p.SanitizeReader(bytes.NewReader(other))
	sharedUGC().SanitizeBytes(other)
	if string(b) != bBefore {
		return violation(string(b), "C15: the []byte returned by SanitizeBytes changed after later sanitise calls: %s became %s", q(trunc(bBefore, 150)), q(trunc(string(b), 150)))
	}
	if rdBuf.String() != rdBefore || wholeBuf.String() != whole {
		return violation(rdBuf.String(), "C15: the buffer returned by SanitizeReader changed after later sanitise calls: %s became %s", q(trunc(rdBefore, 150)), q(trunc(rdBuf.String(), 150)))
	}
	if rd != whole {
		return violation(rd, "C15: SanitizeReader depends on how the reader splits the data (chunks %v, EOF with data %v): %s vs unsplit %s", sizes, eofWithData, q(trunc(rd, 200)), q(trunc(whole, 200)))
	}
	if w1.String() != rd || w2.String() != rd {
		return violation(w1.String(), "C15: SanitizeReaderToWriter (plain %s / WriteString %s) differs from SanitizeReader %s", q(trunc(w1.String(), 150)), q(trunc(w2.String(), 150)), q(trunc(rd, 150)))
	}
	if isBlank(in) {
		if s != in || bs != in {
			return violation(s, "C15: whitespace-only input %s is not returned unchanged by Sanitize (%s) / SanitizeBytes (%s)", q(in), q(s), q(bs))
		}
		r.Class("blank_input")
	} else {
		if s != bs || s != rd {
			return violation(s, "C15: entry points disagree on non-blank input: Sanitize %s, SanitizeBytes %s, SanitizeReader %s", q(trunc(s, 150)), q(trunc(bs, 150)), q(trunc(rd, 150)))
		}
	}
	// NT: a chunk boundary strictly inside a token of the reference tokenisation
	toks := tokenize(in)
	bounds := map[int]bool{0: true}
	off := 0
	for _, t := range toks {
		off += len(t.Raw)
		bounds[off] = true
	}
	inside := false
	for _, sp := range cr.splits {
		if !bounds[sp] {
			inside = true
		}
	}
	if eofWithData {
		r.Class("eof_delivered_with_data")
	}
	if inside {
		r.Class("split_inside_token")
	}
	if len(toks) >= 2 && len(cr.splits) >= 1 && inside {
		r.NonTrivial(c.Spec.String()+"\x00"+in+fmt.Sprint(c.Ints), func() any {
			return map[string]any{"policy": c.Spec.String(), "input": q(trunc(in, 200)), "chunk_sizes": sizes, "eof_with_data": eofWithData, "split_offsets": cr.splits}
		})
	}
	return nil
}

// ---------------------------------------------------------------------------------------------
// command line tools

var (
	cliOnce sync.Once
	cliDir  string
	cliErr  error
)

func repoDir() string {
	if d := os.Getenv("VERIF_REPO"); d != "" {
		return d
	}
	return "/repo"
}

func buildCLI() {
	cliOnce.Do(func() {
		dir, err := os.MkdirTemp("", "verif-cli-")
		if err != nil {
			cliErr = err
			return
		}
		cliDir = dir
		for _, name := range []string{"sanitise_ugc", "sanitise_html_email"} {
			cmd := exec.Command("go", "build", "-o", filepath.Join(dir, name), "./cmd/"+name)
			cmd.Dir = repoDir()
			env := []string{}
			for _, e := range os.Environ() {
				if !strings.HasPrefix(e, "GOFLAGS=") {
					env = append(env, e)
				}
			}
			cmd.Env = append(env, "GOFLAGS=-mod=readonly", "GOPROXY=off", "GOTOOLCHAIN=local")
			if out, err := cmd.CombinedOutput(); err != nil {
				cliErr = fmt.Errorf("building %s: %v: %s", name, err, out)
				return
			}
		}
	})
}

func cleanupCLI() {
	if cliDir != "" {
		os.RemoveAll(cliDir)
	}
}

// The policies the two commands document in their main.go, restated here.
func cliUGCPolicy() *bluemonday.Policy {
	p := bluemonday.UGCPolicy()
	p.RequireNoFollowOnLinks(true)
	p.RequireNoFollowOnFullyQualifiedLinks(true)
	p.AddTargetBlankToFullyQualifiedLinks(true)
	return p
}

var (
	emailColor      = regexp.MustCompile(`(?i)^(#[0-9a-fA-F]{1,6}|black|silver|gray|white|maroon|red|purple|fuchsia|green|lime|olive|yellow|navy|blue|teal|aqua|orange|aliceblue|antiquewhite|aquamarine|azure|beige|bisque|blanchedalmond|blueviolet|brown|burlywood|cadetblue|chartreuse|chocolate|coral|cornflowerblue|cornsilk|crimson|darkblue|darkcyan|darkgoldenrod|darkgray|darkgreen|darkgrey|darkkhaki|darkmagenta|darkolivegreen|darkorange|darkorchid|darkred|darksalmon|darkseagreen|darkslateblue|darkslategray|darkslategrey|darkturquoise|darkviolet|deeppink|deepskyblue|dimgray|dimgrey|dodgerblue|firebrick|floralwhite|forestgreen|gainsboro|ghostwhite|gold|goldenrod|greenyellow|grey|honeydew|hotpink|indianred|indigo|ivory|khaki|lavender|lavenderblush|lawngreen|lemonchiffon|lightblue|lightcoral|lightcyan|lightgoldenrodyellow|lightgray|lightgreen|lightgrey|lightpink|lightsalmon|lightseagreen|lightskyblue|lightslategray|lightslategrey|lightsteelblue|lightyellow|limegreen|linen|mediumaquamarine|mediumblue|mediumorchid|mediumpurple|mediumseagreen|mediumslateblue|mediumspringgreen|mediumturquoise|mediumvioletred|midnightblue|mintcream|mistyrose|moccasin|navajowhite|oldlace|olivedrab|orangered|orchid|palegoldenrod|palegreen|paleturquoise|palevioletred|papayawhip|peachpuff|peru|pink|plum|powderblue|rosybrown|royalblue|saddlebrown|salmon|sandybrown|seagreen|seashell|sienna|skyblue|slateblue|slategray|slategrey|snow|springgreen|steelblue|tan|thistle|tomato|turquoise|violet|wheat|whitesmoke|yellowgreen|rebeccapurple)$`)
	emailButtonType = regexp.MustCompile(`(?i)^[a-zA-Z][a-zA-Z-]{1,30}[a-zA-Z]$`)
	emailStyleType  = regexp.MustCompile(`(?i)^text\/css$`)
)

func cliEmailPolicy() *bluemonday.Policy {
	p := bluemonday.UGCPolicy()
	p.AllowElements("html", "head", "body", "title")
	p.AllowAttrs("type").Matching(emailStyleType).OnElements("style")
	p.AllowAttrs("style").Globally()
	p.AllowElements("font", "main", "nav", "header", "footer", "kbd", "legend")
	p.AllowAttrs("type").Matching(emailButtonType).OnElements("button")
	p.AllowAttrs("bgcolor", "color").Matching(emailColor).OnElements("basefont", "font", "hr")
	p.AllowAttrs("border").Matching(bluemonday.Integer).OnElements("img", "table")
	p.AllowAttrs("cellpadding", "cellspacing").Matching(bluemonday.Integer).OnElements("table")
	p.AllowStyling()
	p.AllowDataURIImages()
	p.RequireNoFollowOnLinks(true)
	p.RequireNoFollowOnFullyQualifiedLinks(true)
	p.AddTargetBlankToFullyQualifiedLinks(true)
	return p
}

func checkCLI(c *Case, r *Rec) error {
	buildCLI()
	if cliErr != nil {
		panic("HARNESS-ERROR: " + cliErr.Error())
	}
	in := string(c.Input)
	var bin string
	var want string
	if c.Kind == "cli-ugc" {
		bin, want = "sanitise_ugc", cliUGCPolicy().Sanitize(in)
	} else {
		bin, want = "sanitise_html_email", cliEmailPolicy().Sanitize(in)
	}
	cmd := exec.Command(filepath.Join(cliDir, bin))
	cmd.Stdin = strings.NewReader(in)
	var stdout, stderr bytes.Buffer
	cmd.Stdout, cmd.Stderr = &stdout, &stderr
	if err := cmd.Run(); err != nil {
		return violation(stdout.String(), "C15(cli): %s exits with %v (stderr %s) on stdin %s", bin, err, q(trunc(stderr.String(), 200)), q(trunc(in, 200)))
	}
	if stdout.String() != want {
		return violation(stdout.String(), "C15(cli): %s wrote %s but the library result of its documented policy is %s", bin, q(trunc(stdout.String(), 200)), q(trunc(want, 200)))
	}
	r.Class(c.Kind)
	if len(tokenize(in)) >= 2 {
		r.NonTrivial(c.Kind+"\x00"+in, func() any {
			return map[string]any{"command": bin, "stdin": q(trunc(in, 200)), "stdout": q(trunc(want, 200))}
		})
	}
	return nil
}

func init() { register(&Prop{ID: "C15", Gen: genC15, Check: checkC15}) }
