package props

import (
	"bytes"
	"encoding/json"
	"os"
	"strings"
	"sync"

	"github.com/microcosm-cc/bluemonday"
	"pgregory.net/rapid"
)

// C13 — a finished policy is deterministic and safe to share between goroutines.
// Run under the race detector (the driver builds this property's binary with -race and sets
// GORACE=halt_on_error=1); the current case is written to a side file before the stress so that
// a race report can be tied to a replayable case.

var c13Kinds = func() []string {
	k := append([]string{}, defaultOpKinds...)
	for i := 0; i < 5; i++ {
		k = append(k, "AllowElementsMatching", "AllowStyles", "AllowAttrs")
	}
	k = append(k, "AllowURLSchemeWithCustomPolicy", "RewriteSrc", "AllowURLSchemesMatching", "AllowNoAttrs")
	return k
}()

// overlapping element patterns that all match the host elements my-x / x-a-y / tag1, with
// attribute and style rules for the SAME attribute / property and different accepted values:
// the shape in which an order-dependent merge shows
func genC13Overlap(t *rapid.T) *Case {
	spec := &Spec{Base: "New"}
	res := []int{0, 1, 2, 4, 7, 10, 11, 12, 0, 10} // ^my-  -y$  ^x-  .*  tag, and second compilations of ^my- .* -y$
	hostProps := []string{"color", "text-align", "width"}
	n := rapid.IntRange(2, 12).Draw(t, "nov")
	hotRe, hotProp := rapid.SampledFrom(res).Draw(t, "hotre"), rapid.SampledFrom(hostProps).Draw(t, "hotprop")
	for i := 0; i < n; i++ {
		re := rapid.SampledFrom(res).Draw(t, "ovre")
		hot := rapid.IntRange(0, 2).Draw(t, "hot") != 0
		if hot {
			re = hotRe
		}
		if rapid.Bool().Draw(t, "ovstyle") {
			op := Op{Kind: "AllowStyles", Attrs: []string{rapid.SampledFrom(hostProps).Draw(t, "ovprop")}, Scope: "elre", ElRe: re, ValRe: -1}
			if hot {
				op.Attrs = []string{hotProp}
			}
			switch rapid.IntRange(0, 2).Draw(t, "ovmatch") {
			case 0:
				op.Match, op.Enum = "enum", rapid.IntRange(0, len(styleEnumPool)-1).Draw(t, "ovenum")
			case 1:
				op.Match, op.ValRe = "re", rapid.IntRange(0, len(styleRePool)-1).Draw(t, "ovsre")
			default:
				op.Match, op.Fn = "fn", rapid.IntRange(1, len(styleFns)-1).Draw(t, "ovfn")
			}
			spec.Ops = append(spec.Ops, op)
		} else {
			op := Op{Kind: "AllowAttrs", Attrs: []string{rapid.SampledFrom([]string{"title", "class", "id", "style"}).Draw(t, "ovattr")}, Scope: "elre", ElRe: re, ValRe: -1}
			if rapid.Bool().Draw(t, "ovhasre") {
				op.ValRe = rapid.SampledFrom([]int{0, 3, 4, 5}).Draw(t, "ovvre")
			}
			spec.Ops = append(spec.Ops, op)
		}
	}
	spec.Ops = append(spec.Ops, Op{Kind: "AllowAttrs", Attrs: []string{"id"}, Scope: "elre", ElRe: 4, ValRe: -1})
	hosts := []string{"my-x", "x-a-y", "my-y", "tag1", "x-q"}
	vals := []string{"red", "blue", "left", "right", "center", "10px", "1px", "#fff", "re d", "1", "abc", "42", "a b"}
	c := &Case{Spec: spec, Kind: "overlap"}
	k := rapid.IntRange(8, 12).Draw(t, "ninputs")
	for i := 0; i < k; i++ {
		el := rapid.SampledFrom(hosts).Draw(t, "ovhost")
		var ds []string
		for j := rapid.IntRange(1, 3).Draw(t, "ovnd"); j > 0; j-- {
			ds = append(ds, rapid.SampledFrom(hostProps).Draw(t, "ovp")+": "+rapid.SampledFrom(vals).Draw(t, "ovv"))
		}
		in := "<" + el + ` id="i" style="` + strings.Join(ds, "; ") + `" title="` + rapid.SampledFrom(vals).Draw(t, "ovt") + `" class="` + rapid.SampledFrom(vals).Draw(t, "ovc") + `">t</` + el + ">"
		if i == 0 && rapid.IntRange(0, 3).Draw(t, "ovbig") == 0 {
			in += strings.Repeat("filler text "+itoa(i)+" ", 400) // > 4 KiB: large-buffer paths
		}
		c.Inputs = append(c.Inputs, BStr(in))
	}
	return c
}

// extra property names a future handler table might know (unknown today: reject-all handler)
var extraCSSProps = []string{"fill", "stroke", "caret-color", "accent-color", "scrollbar-color", "inset", "gap", "aspect-ratio", "text-underline-offset"}

// genC13CSSAll: every default CSS handler registered globally and used concurrently with many
// different properties: handlers must not write package-level state.
func genC13CSSAll(t *rapid.T) *Case {
	all := append(append([]string{}, cssProps...), extraCSSProps...)
	spec := &Spec{Base: "New", Ops: []Op{
		{Kind: "AllowAttrs", Attrs: []string{"style", "id"}, ValRe: -1, Scope: "els", Names: []string{"p", "span"}},
		{Kind: "AllowStyles", Attrs: all, ValRe: -1, Scope: "global"}}}
	c := &Case{Spec: spec, Kind: "css-all"}
	k := rapid.IntRange(8, 12).Draw(t, "ninputs")
	for i := 0; i < k; i++ {
		var ds []string
		for j := rapid.IntRange(1, 4).Draw(t, "nd"); j > 0; j-- {
			prop := rapid.SampledFrom(all).Draw(t, "cssprop")
			if rapid.IntRange(0, 3).Draw(t, "colorish") == 0 {
				prop = rapid.SampledFrom([]string{"color", "caret-color", "fill", "stroke", "background-color", "border-color", "outline-color"}).Draw(t, "colorprop")
			}
			val := rapid.SampledFrom(cssTokens).Draw(t, "csstok")
			if rapid.Bool().Draw(t, "two") {
				val += " " + rapid.SampledFrom(cssTokens).Draw(t, "csstok2")
			}
			ds = append(ds, prop+": "+val)
		}
		c.Inputs = append(c.Inputs, BStr(`<p id="i" style="`+escAttr(strings.Join(ds, "; "), '"')+`">t</p>`))
	}
	return c
}

// genC13History: inputs whose processing leaves something behind if per-call state is kept beyond
// the call (dropped elements that are never closed, shorthand values that are accepted only after
// backtracking), next to inputs whose result depends on such state being fresh.
func genC13History(t *rapid.T) *Case {
	spec := &Spec{Base: "New", Ops: []Op{
		{Kind: "AllowAttrs", Attrs: []string{"href"}, ValRe: -1, Scope: "els", Names: []string{"a"}},
		{Kind: "AllowAttrs", Attrs: []string{"color"}, ValRe: -1, Scope: "els", Names: []string{"font"}},
		{Kind: "AllowAttrs", Attrs: []string{"style", "id"}, ValRe: -1, Scope: "els", Names: []string{"p", "span"}},
		{Kind: "AllowStyles", Attrs: []string{"margin", "border", "font", "background", "padding", "transition"}, ValRe: -1, Scope: "global"},
		{Kind: "AllowElements", Names: []string{"b", "div"}, ValRe: -1}, {Kind: "AllowRelativeURLs", B: true, ValRe: -1}}}
	pool := []string{`<p>see <a>this</p>`, `<font><a href="/x">t</font> u`, `<a><font>x`, `<font color="red"><a>y</font>`, `<a href="/y"><font>z</a></font>`, `<font><font color="red">q</font>`,
		`<a><a href="/z">w</a>`, `<p><font>`, `<b><a>`, `<a href="/k">k</a>`, `<div><font><a href="/m">m</div>`,
		`<p style="margin: auto  10px">a</p>`, `<p style="margin: 5px 10px 20px">b</p>`, `<p style="border: 1px  solid red">c</p>`, `<p style="margin: 1px 2px 3px 4px">d</p>`,
		`<p style="padding: 1px  2px 3px">e</p>`, `<p style="padding: 1px 2px 3px">f</p>`, `<p style="font: italic  bold 12px arial">g</p>`, `<p style="font: italic bold 12px arial">h</p>`,
		`<p style="border: 1px solid red">i</p>`, `<p style="transition: width  1s">j</p>`, `<p style="transition: width 1s ease 2s">k</p>`}
	c := &Case{Spec: spec, Kind: "history"}
	for _, i := range rapid.Permutation(pool).Draw(t, "order") {
		c.Inputs = append(c.Inputs, BStr(i))
	}
	return c
}

func genC13(t *rapid.T) *Case {
	switch rapid.IntRange(0, 6).Draw(t, "overlapCase") {
	case 0, 1:
		return genC13Overlap(t)
	case 2:
		return genC13CSSAll(t)
	case 6:
		return genC13History(t)
	}
	spec := genSpec(t, &SpecOpts{Kinds: c13Kinds, MinOps: 3, MaxOps: 14})
	m := BuildModel(spec)
	n := rapid.IntRange(8, 16).Draw(t, "ninputs")
	c := &Case{Spec: spec}
	for i := 0; i < n; i++ {
		in := genSoup(t, m, &soupOpts{maxFrags: 8, els: []string{"my-x", "x-a-y", "span", "h1"}, attrs: []string{"style", "href", "src"}})
		if i == 0 && rapid.IntRange(0, 3).Draw(t, "big") == 0 {
			in += strings.Repeat("<b>filler "+itoa(i)+"</b> text ", 300) // > 4 KiB
		}
		c.Inputs = append(c.Inputs, BStr(in))
	}
	return c
}

func allEntryPoints(p *bluemonday.Policy, in string) [4]string {
	var out [4]string
	out[0] = p.Sanitize(in)
	out[1] = string(p.SanitizeBytes([]byte(in)))
	out[2] = p.SanitizeReader(strings.NewReader(in)).String()
	var b bytes.Buffer
	if err := p.SanitizeReaderToWriter(strings.NewReader(in), &b); err != nil {
		out[3] = "ERROR: " + err.Error()
	} else {
		out[3] = b.String()
	}
	return out
}

func noteCurrentCase(c *Case) {
	path := os.Getenv("VERIF_REPLAY_OUT")
	if path == "" {
		return
	}
	cc := *c
	cc.Prop = "C13"
	cc.Clause = "C13: the race detector reported a data race while this case was being stressed (see the run's log)"
	if cc.Spec != nil {
		cc.SpecGo = cc.Spec.String()
	}
	b, _ := json.Marshal(&cc)
	_ = os.WriteFile(path+".current", b, 0o644)
}

func checkC13(c *Case, r *Rec) error {
	noteCurrentCase(c)
	p := Build(c.Spec, nil)
	n := len(c.Inputs)
	base := make([][4]string, n)
	for i, in := range c.Inputs {
		base[i] = allEntryPoints(p, string(in))
	}
	// (2) concurrent use of the same policy
	const G = 12
	var wg sync.WaitGroup
	errs := make([]error, G)
	for g := 0; g < G; g++ {
		wg.Add(1)
		go func(g int) {
			defer wg.Done()
			var heldBytes []byte
			var heldBuf *bytes.Buffer
			heldFor := -1
			for k := 0; k < n; k++ {
				i := (k + g) % n // different goroutines work on different inputs at the same time
				got := allEntryPoints(p, string(c.Inputs[i]))
				// results kept by the caller from the previous round must still be intact
				if heldFor >= 0 && errs[g] == nil && (string(heldBytes) != base[heldFor][1] || heldBuf.String() != base[heldFor][2]) {
					errs[g] = violation(string(heldBytes), "C13: a result kept by the caller (SanitizeBytes %s / SanitizeReader %s) changed while other calls ran; expected %s", q(trunc(string(heldBytes), 120)), q(trunc(heldBuf.String(), 120)), q(trunc(base[heldFor][1], 120)))
				}
				heldBytes, heldBuf, heldFor = p.SanitizeBytes([]byte(c.Inputs[i])), p.SanitizeReader(bytes.NewReader([]byte(c.Inputs[i]))), i
				if got != base[i] && errs[g] == nil {
					for e := 0; e < 4; e++ {
						if got[e] != base[i][e] {
							errs[g] = violation(got[e], "C13: concurrent %s on a shared policy returned %s, the sequential call returned %s (input %s)", entryNames[e], q(trunc(got[e], 150)), q(trunc(base[i][e], 150)), q(trunc(string(c.Inputs[i]), 150)))
						}
					}
				}
			}
		}(g)
	}
	wg.Wait()
	for _, e := range errs {
		if e != nil {
			return e
		}
	}
	// (3) sanitising never changes later behaviour
	for i, in := range c.Inputs {
		if got := allEntryPoints(p, string(in)); got != base[i] {
			return violation(got[0], "C13: the same policy returns a different result after having been used: %s then %s (input %s)", q(trunc(base[i][0], 150)), q(trunc(got[0], 150)), q(trunc(string(in), 150)))
		}
	}
	// (4) results do not depend on map iteration order: rebuild (fresh maps) and repeat
	for rb := 0; rb < 6; rb++ {
		p2 := Build(c.Spec, nil)
		for i, in := range c.Inputs {
			for rep := 0; rep < 3; rep++ {
				if got := p2.Sanitize(string(in)); got != base[i][0] {
					return violation(got, "C13: an identically built policy returns %s instead of %s (input %s): the result depends on map iteration order or on the instance", q(trunc(got, 150)), q(trunc(base[i][0], 150)), q(trunc(string(in), 150)))
				}
			}
		}
	}
	m := BuildModel(c.Spec)
	scopes := 0
	if len(m.elStyles) > 0 {
		scopes++
	}
	if len(m.reStyles) > 0 {
		scopes++
	}
	if len(m.globStyles) > 0 {
		scopes++
	}
	hasTag := false
	for i := range base {
		if strings.Contains(base[i][0], "<") {
			hasTag = true
		}
	}
	if len(m.elRes) >= 2 {
		r.Class("two_or_more_element_patterns")
	}
	if scopes >= 2 {
		r.Class("style_rules_in_two_or_more_scopes")
	}
	if m.rewriter >= 0 || len(m.schemes) > 0 {
		r.Class("url_callbacks_or_schemes")
	}
	r.EvalN(n * (4 + 4*G + 4 + 18))
	if (len(m.elRes) >= 2 || scopes >= 2) && hasTag {
		r.NonTrivial(c.Spec.String()+"\x00"+string(c.Inputs[0]), func() any {
			return map[string]any{"policy": c.Spec.String(), "inputs": n, "first_input": q(trunc(string(c.Inputs[0]), 200)), "goroutines": G}
		})
	}
	return nil
}

func init() { register(&Prop{ID: "C13", Gen: genC13, Check: checkC13}) }
