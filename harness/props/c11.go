package props

import (
	"fmt"
	"strings"

	"golang.org/x/net/html"
	"pgregory.net/rapid"
)

// C11 — link hardening: nofollow, noreferrer, noopener and _blank are really present.
// C12 — forced attributes: crossorigin=anonymous and iframe sandbox.

func htmlFields(s string) []string {
	return strings.FieldsFunc(s, func(r rune) bool { return r == ' ' || r == '\t' || r == '\n' || r == '\r' || r == '\f' })
}

func hasTok(v, tok string) bool {
	for _, f := range htmlFields(v) {
		if asciiLower(f) == tok {
			return true
		}
	}
	return false
}

func countExact(v, tok string) int {
	n := 0
	for _, f := range htmlFields(v) {
		if f == tok {
			n++
		}
	}
	return n
}

var relToks = []string{"nofollow", "noreferrer", "noopener", "nofollowx", "xnofollow", "NOFOLLOW", "noopenerx", "external", "stylesheet", "x-noreferrer", "no", "NoOpener", "noreferrer-x", "nofollow_noopener"}
var relSeps = []string{" ", " ", "  ", "\t", "\n", "\f", "\r", " ", " ", "\u00a0", "\v", "\u2003", "\u0085"} // the last four are NOT HTML whitespace: they glue tokens together
var hrefPool = []string{"http://example.com/", "https://a.b/c", "//cdn.x/y", "/local", "rel.html", "#f", "mailto:a@b.c", "http:/x", "http:evil.com", "javascript:alert(1)", "http://user@/p",
	"HTTP://EXAMPLE.COM", "http://[::1]/", "https://h:8080/", "http:\\\\evil.com", "?q=http://x/", "http://é.com/", " http://padded.example/ ", "//", "///x", "http://",
	// encoded slashes plus a character net/url re-encodes: re-serialisation may turn a local path into a host
	"/%2Fevil.com/^", "/%2fevil.com/\u00e9", "%2F%2Fevil.com/|", "http:/%2Fevil.com/^", "/%2Fevil.com\"", "/%2F/evil.com/{}", "/a/..%2F%2Fb^",
	// hrefs net/url rejects
	"http://example.com/sale-100%", "http://example.com/%zz", "https://a.b/\x7f", "//cdn.x/%", "/local/100%",
	// surrounded by spaces / holding tab or newline: the URL parser of a browser removes them first
	" //padded.example/", "  //padded.example/x ", "\t//tab.example/", "/\t/tab.example/", "//new\nline.example/", " /local ", "\n//nl.example/",
	// forms in which only a browser finds a host
	"http:/evil.example", "https:evil.example/x", "https:\\\\evil.example", "///evil.example/", "/\\evil.example", "\\\\evil.example/p", "\\/evil.example", "HTTP:\\evil.example", "/%2F/evil.example/^", "ftp:/files.example/", "/\\/evil.example", "x-app:/local", "mailto:/x", "file:\\\\files.example\\x", "file:///local/x", "FILE:\\/files.example/x"}
var targetPool = []string{"_blank", "_self", "foo", "_BLANK", "", "_blank ", "_top", "_Blank", "x\n<", "a\t<b", "_blan\u212a", "x\ny", "ab\n<cd", "_bl\t<k", "<\rabcd", "_blan\n<"}

func genC11(t *rapid.T) *Case {
	nr := func(o Op) Op {
		if o.Kind != "AllowAttrs" || o.ValRe == 0 {
			o.ValRe = -1
		}
		return o
	}
	spec := &Spec{Base: "New"}
	spec.Ops = append(spec.Ops, nr(Op{Kind: "AllowAttrs", Attrs: []string{"href", "target", "id"}, Scope: "els", Names: []string{"a", "area", "link"}}))
	relRule := Op{Kind: "AllowAttrs", Attrs: []string{"rel"}, Scope: "els", Names: []string{"a", "area", "link"}, ValRe: -1}
	if rapid.IntRange(0, 3).Draw(t, "relGlobal") == 0 {
		// rel (and target) admitted by a global rule only, not by the link elements' own rules
		relRule = Op{Kind: "AllowAttrs", Attrs: []string{"rel", "target"}, Scope: "global", ValRe: -1}
	}
	switch rapid.IntRange(0, 3).Draw(t, "relRule") {
	case 0:
		relRule.ValRe = 3 // SpaceSeparatedTokens
	case 1:
		relRule.ValRe = 4 // Paragraph (permissive)
	}
	spec.Ops = append(spec.Ops, relRule)
	if rapid.IntRange(0, 4).Draw(t, "targetRule") == 0 {
		spec.Ops[0].Attrs = []string{"href", "id"}
		spec.Ops = append(spec.Ops, Op{Kind: "AllowAttrs", Attrs: []string{"target"}, Scope: "els", Names: []string{"a", "area"}, ValRe: 16})
	}
	if rapid.IntRange(0, 4).Draw(t, "hrefGlobal") == 0 {
		// href reaches the link elements through a global rule only; their own rules name other attributes
		var rest []string
		for _, a := range spec.Ops[0].Attrs {
			if a != "href" {
				rest = append(rest, a)
			}
		}
		spec.Ops[0].Attrs = rest
		spec.Ops = append(spec.Ops, Op{Kind: "AllowAttrs", Attrs: []string{"href"}, Scope: "global", ValRe: -1})
	}
	spec.Ops = append(spec.Ops, nr(Op{Kind: "AllowURLSchemes", Names: []string{"http", "https", "mailto", "file"}}), nr(Op{Kind: "AllowRelativeURLs", B: true}))
	optKinds := []string{"RequireNoFollowOnLinks", "RequireNoFollowOnFullyQualifiedLinks", "RequireNoReferrerOnLinks", "RequireNoReferrerOnFullyQualifiedLinks", "AddTargetBlankToFullyQualifiedLinks"}
	for _, k := range optKinds {
		switch rapid.IntRange(0, 3).Draw(t, k) {
		case 0:
		case 1:
			spec.Ops = append(spec.Ops, nr(Op{Kind: k, B: true}))
		case 2:
			spec.Ops = append(spec.Ops, nr(Op{Kind: k, B: false}))
		default: // set then unset, or unset then set
			b := rapid.Bool().Draw(t, "first")
			spec.Ops = append(spec.Ops, nr(Op{Kind: k, B: b}), nr(Op{Kind: k, B: !b}))
		}
	}
	if rapid.IntRange(0, 5).Draw(t, "rawURLs") == 0 {
		// every link option switches URL parsing on; the user may switch it off again, hrefs are
		// then kept as written, including those net/url cannot parse
		spec.Ops = append(spec.Ops, nr(Op{Kind: "RequireParseableURLs", B: false}))
	}
	switch rapid.IntRange(0, 7).Draw(t, "c11base") {
	case 0:
		spec.Base = "UGC"
	case 1, 2:
		// a Policy{} literal with the options requested BEFORE the first rule
		spec.Base = "Zero"
		var opts, rules []Op
		for _, o := range spec.Ops {
			if o.Kind == "AllowAttrs" || o.Kind == "AllowURLSchemes" {
				rules = append(rules, o)
			} else {
				opts = append(opts, o)
			}
		}
		spec.Ops = append(opts, rules...)
	}
	return &Case{Spec: spec, Input: BStr(genLinkElements(t))}
}

// genLinkElements: 1-3 a/area/link elements with unique ids and any combination, order and
// multiplicity of href/rel/target.
func genLinkElements(t *rapid.T) string {
	var sb strings.Builder
	nel := rapid.IntRange(1, 3).Draw(t, "nel")
	for e := 0; e < nel; e++ {
		el := rapid.SampledFrom([]string{"a", "a", "area", "link"}).Draw(t, "el")
		attrs := []string{fmt.Sprintf(`id="e%d"`, e)}
		k := rapid.IntRange(0, 5).Draw(t, "nattr")
		for i := 0; i < k; i++ {
			switch rapid.IntRange(0, 2).Draw(t, "which") {
			case 0:
				attrs = append(attrs, quotedAttr("href", rapid.SampledFrom(hrefPool).Draw(t, "href")))
			case 1:
				n := rapid.IntRange(0, 4).Draw(t, "nrel")
				v := ""
				for j := 0; j < n; j++ {
					if j > 0 {
						v += rapid.SampledFrom(relSeps).Draw(t, "sep")
					}
					v += rapid.SampledFrom(relToks).Draw(t, "tok")
				}
				attrs = append(attrs, quotedAttr("rel", v))
			default:
				attrs = append(attrs, quotedAttr("target", rapid.SampledFrom(targetPool).Draw(t, "tgt")))
			}
		}
		// shuffle position of id by rotating
		rot := rapid.IntRange(0, len(attrs)-1).Draw(t, "rot")
		attrs = append(attrs[rot:], attrs[:rot]...)
		sb.WriteString("<" + el + " " + strings.Join(attrs, " ") + ">x")
		if el == "a" {
			sb.WriteString("</a>")
		}
	}
	return sb.String()
}

// blankTarget: the target a browser takes for _blank (HTML, "get an element's target" and the rules
// for choosing a navigable): the keyword is matched ASCII case-insensitively, and a value that
// contains an ASCII tab or newline and a "<" is replaced by _blank.
func blankTarget(v string) bool {
	if asciiLower(v) == "_blank" {
		return true
	}
	return strings.ContainsAny(v, "\t\n\r") && strings.Contains(v, "<")
}

func checkC11(c *Case, r *Rec) error {
	m := BuildModel(c.Spec)
	in := string(c.Input)
	out, _ := sanitizeSpec(c.Spec, in)
	inByID := map[string]tok{}
	for _, tk := range tokenize(in) {
		if isOpenTag(tk) {
			if id, ok := firstAttr(tk.Attr, "id"); ok {
				if _, dup := inByID[id]; !dup {
					inByID[id] = tk
				}
			}
		}
	}
	anyOpt := m.linkOptions()
	for _, tk := range tokenize(out) {
		if !isOpenTag(tk) || (tk.Name != "a" && tk.Name != "area" && tk.Name != "link") {
			continue
		}
		href, ok := firstAttr(tk.Attr, "href")
		if !ok {
			continue
		}
		rel, hasRel := firstAttr(tk.Attr, "rel")
		tgt, hasT := firstAttr(tk.Attr, "target")
		fq := hasAuthority(href)
		needNF := m.noFollow || (m.noFollowFQ && fq)
		needNR := m.noRef || (m.noRefFQ && fq)
		if needNF && !hasTok(rel, "nofollow") {
			return violation(out, "C11: <%s href=%q> lacks the rel token nofollow (rel=%q)", tk.Name, href, rel)
		}
		if needNR && !hasTok(rel, "noreferrer") {
			return violation(out, "C11: <%s href=%q> lacks the rel token noreferrer (rel=%q)", tk.Name, href, rel)
		}
		if tk.Name == "a" {
			if m.targetBlank && fq && !(hasT && tgt == "_blank") {
				// (literally: this is the value the sanitiser itself writes)
				return violation(out, "C11: <a href=%q> has a host but target=%q (present=%v) instead of _blank", href, tgt, hasT)
			}
			if anyOpt && hasT && blankTarget(tgt) && !hasTok(rel, "noopener") {
				return violation(out, "C11: <a href=%q target=_blank> lacks the rel token noopener (rel=%q)", href, rel)
			}
		}
		// existing tokens kept, required tokens not duplicated: tie the first output rel to an input rel
		id, _ := firstAttr(tk.Attr, "id")
		it, known := inByID[id]
		if !known || !hasRel {
			continue
		}
		var inRels []string
		for _, a := range it.Attr {
			if a.Key == "rel" {
				inRels = append(inRels, a.Val)
			}
		}
		if len(inRels) > 0 && anyOpt {
			r.Class("element_with_input_rel_and_option")
		}
		explained := false
		for _, ir := range inRels {
			// the output rel holds every token of this input rel (as written) plus, at most once each,
			// the required tokens; how the value is spaced is the sanitiser's business
			extra := map[string]int{}
			for _, f := range htmlFields(rel) {
				extra[f]++
			}
			ok := true
			for _, f := range htmlFields(ir) {
				extra[f]--
				if extra[f] < 0 {
					ok = false
				}
			}
			for f, n := range extra {
				if n > 0 && !(n == 1 && (f == "nofollow" || f == "noreferrer" || f == "noopener")) {
					ok = false
				}
			}
			if !ok {
				continue
			}
			explained = true
			for _, req := range []string{"nofollow", "noreferrer", "noopener"} {
				cin, cout := countExact(ir, req), countExact(rel, req)
				if cout > cin+1 || (hasTok(ir, req) && cout > cin) {
					return violation(out, "C11: required token %s duplicated: input rel %q became %q", req, ir, rel)
				}
			}
			break
		}
		if !explained {
			// either no input rel survived and the value is made of forced tokens only ...
			onlyForced := true
			for _, f := range htmlFields(rel) {
				if f != "nofollow" && f != "noreferrer" && f != "noopener" {
					onlyForced = false
				}
			}
			if !onlyForced {
				return violation(out, "C11: output rel %q on #%s is not an input rel value (%q) followed by added tokens: existing tokens were not kept", rel, id, inRels)
			}
			if len(htmlFields(rel)) != len(uniq(htmlFields(rel))) {
				return violation(out, "C11: added rel %q repeats a token", rel)
			}
		}
	}
	if anyOpt {
		r.Class("some_link_option_on")
	}
	ntKey := false
	for _, tk := range inByID {
		if _, ok := firstAttr(tk.Attr, "rel"); ok && anyOpt {
			if _, ok := firstAttr(tk.Attr, "href"); ok {
				ntKey = true
			}
		}
	}
	if ntKey {
		r.NonTrivial(c.Spec.String()+"\x00"+in, func() any {
			return map[string]any{"policy": c.Spec.String(), "input": q(trunc(in, 300)), "output": q(trunc(out, 300))}
		})
	}
	return nil
}

func uniq(l []string) []string {
	seen := map[string]bool{}
	var out []string
	for _, s := range l {
		if !seen[s] {
			seen[s] = true
			out = append(out, s)
		}
	}
	return out
}

// ---------------------------------------------------------------------------------------------
// C12

var coVals = []string{"anonymous", "use-credentials", "", "ANONYMOUS", "x", "anonymous ", "use-credentials anonymous"}
var sbToks = append([]string{"allow-nothing", "ALLOW-SCRIPTS", "allow-scripts;", "x"}, sandboxNames...)

func genC12(t *rapid.T) *Case {
	spec := genSpec(t, &SpecOpts{MaxOps: 6})
	els := []string{"img", "audio", "video", "link", "iframe", "script", "image"}
	spec.Ops = append(spec.Ops, Op{Kind: "AllowAttrs", Attrs: []string{"src", "href", "crossorigin", "sandbox", "id"}, ValRe: -1, Scope: "els", Names: els})
	if rapid.IntRange(0, 3).Draw(t, "forcedGlobal") == 0 {
		// crossorigin and sandbox admitted by a global rule only
		spec.Ops[len(spec.Ops)-1].Attrs = []string{"src", "href", "id"}
		spec.Ops = append(spec.Ops, Op{Kind: "AllowAttrs", Attrs: []string{"crossorigin", "sandbox"}, ValRe: -1, Scope: "global"})
	}
	if rapid.IntRange(0, 2).Draw(t, "linkOpt") == 0 {
		// link is also one of the elements the rel / target hardening works on: the two passes over
		// the same attribute list must not get in each other's way
		spec.Ops = append(spec.Ops, Op{Kind: "AllowURLSchemes", Names: []string{"http", "https"}, ValRe: -1},
			Op{Kind: rapid.SampledFrom([]string{"RequireNoFollowOnLinks", "RequireNoFollowOnFullyQualifiedLinks", "RequireNoReferrerOnLinks", "RequireNoReferrerOnFullyQualifiedLinks", "AddTargetBlankToFullyQualifiedLinks"}).Draw(t, "linkOptKind"), B: true, ValRe: -1})
	}
	if rapid.IntRange(0, 3).Draw(t, "co") != 0 {
		spec.Ops = append(spec.Ops, Op{Kind: "RequireCrossOriginAnonymous", B: true, ValRe: -1})
	}
	switch rapid.IntRange(0, 4).Draw(t, "sb") {
	case 0:
	case 1:
		spec.Ops = append(spec.Ops, Op{Kind: "AllowIFrames", ValRe: -1, Vals: drawSandbox(t)})
	case 2: // repeated calls: the last one counts
		spec.Ops = append(spec.Ops, Op{Kind: "RequireSandboxOnIFrame", ValRe: -1, Vals: drawSandbox(t)}, Op{Kind: "RequireSandboxOnIFrame", ValRe: -1, Vals: drawSandbox(t)})
	default:
		spec.Ops = append(spec.Ops, Op{Kind: "RequireSandboxOnIFrame", ValRe: -1, Vals: drawSandbox(t)})
	}
	// script is one of the five elements: it can only be emitted under AllowUnsafe. The raw text of
	// script / style elements then holds media elements that must not come out as markup unforced.
	unsafe := rapid.IntRange(0, 5).Draw(t, "unsafe") == 0
	if unsafe {
		spec.Ops = append(spec.Ops, Op{Kind: "AllowUnsafe", B: true, ValRe: -1})
		for _, o := range []Op{
			{Kind: "AllowElements", Names: []string{"style"}, ValRe: -1},
			{Kind: "AllowElementsContent", Names: []string{"script", "style"}, ValRe: -1},
		} {
			if rapid.Bool().Draw(t, "unsafeop") {
				spec.Ops = append(spec.Ops, o)
			}
		}
	}
	var sb strings.Builder
	n := rapid.IntRange(1, 4).Draw(t, "nel")
	for i := 0; i < n; i++ {
		el := rapid.SampledFrom(els).Draw(t, "el")
		var attrs []string
		if unsafe && rapid.IntRange(0, 2).Draw(t, "wrap") == 0 {
			w := rapid.SampledFrom([]string{"<script>", "<script/>", "<style>", "<style/>", "<script src=x>", "<STYLE >"}).Draw(t, "wrapper")
			sb.WriteString(w + `<img src="http://example.com/x" crossorigin="use-credentials"><iframe src="http://example.com/x" sandbox="allow-nothing allow-scripts"></iframe>` + map[bool]string{true: "</script>", false: "</style>"}[strings.Contains(strings.ToLower(w), "script")])
		}
		k := rapid.IntRange(0, 4).Draw(t, "nattr")
		for j := 0; j < k; j++ {
			switch rapid.IntRange(0, 4).Draw(t, "which") {
			case 4:
				attrs = append(attrs, `href="http://example.com/s.css"`)
			case 0:
				attrs = append(attrs, quotedAttr("crossorigin", rapid.SampledFrom(coVals).Draw(t, "cov")))
			case 1:
				nt := rapid.IntRange(0, 4).Draw(t, "nsbt")
				v := ""
				for x := 0; x < nt; x++ {
					if x > 0 {
						// the last five are NOT HTML white space: they glue two keywords into one unknown token
						v += rapid.SampledFrom([]string{" ", "  ", "\t", "\n", " ", "\f", " ", " ", "\u00a0", "\v", "\u2003", "\u0085", "\u3000"}).Draw(t, "sbsep")
					}
					v += rapid.SampledFrom(sbToks).Draw(t, "sbtok")
				}
				attrs = append(attrs, quotedAttr("sandbox", v))
			case 2:
				attrs = append(attrs, `id="x"`)
			default:
				attrs = append(attrs, `src="http://example.com/x"`)
			}
		}
		sb.WriteString("<" + el + " " + strings.Join(attrs, " ") + ">")
		if !voidEls[el] {
			sb.WriteString("t</" + el + ">")
		}
		if rapid.IntRange(0, 4).Draw(t, "soup") == 0 {
			sb.WriteString(genSoup(t, BuildModel(spec), &soupOpts{maxFrags: 4, els: els, attrs: []string{"crossorigin", "sandbox"}}))
		}
	}
	return &Case{Spec: spec, Input: BStr(sb.String())}
}

func drawSandbox(t *rapid.T) []int {
	var out []int
	switch rapid.IntRange(0, 5).Draw(t, "sbkind") {
	case 0: // empty
	case 1: // all
		for i := 0; i < 14; i++ {
			out = append(out, i)
		}
	default:
		for j := rapid.IntRange(1, 6).Draw(t, "nsb"); j > 0; j-- {
			out = append(out, rapid.IntRange(0, 13).Draw(t, "sbv"))
		}
	}
	return out
}

func checkC12(c *Case, r *Rec) error {
	m := BuildModel(c.Spec)
	in := string(c.Input)
	out, _ := sanitizeSpec(c.Spec, in)
	affected := 0
	inputHasSandbox := false
	inputSandboxToks := map[string]bool{} // tokens of every sandbox attribute of the input, split as HTML splits them
	for _, tk := range tokenize(in) {
		if isOpenTag(tk) {
			if _, ok := firstAttr(tk.Attr, "sandbox"); ok {
				inputHasSandbox = true
			}
			for _, a := range tk.Attr {
				if a.Key == "sandbox" {
					for _, f := range htmlFields(a.Val) {
						inputSandboxToks[f] = true
					}
				}
			}
		}
	}
	for _, tk := range tokenize(out) {
		if !isOpenTag(tk) || len(tk.Attr) == 0 {
			continue
		}
		switch tk.Name {
		case "audio", "img", "image", "link", "video", "script": // (an image start tag becomes an img element)
			if m.crossOrigin {
				affected++
				n := 0
				for _, a := range tk.Attr {
					if a.Key == "crossorigin" {
						n++
						if a.Val != "anonymous" {
							return violation(out, "C12: <%s> carries crossorigin=%q", tk.Name, a.Val)
						}
					}
				}
				if n == 0 {
					return violation(out, "C12: <%s> emitted with attributes but without crossorigin", tk.Name)
				}
			}
		case "iframe":
			if m.sandbox != nil {
				affected++
				n := 0
				for _, a := range tk.Attr {
					if a.Key == "sandbox" {
						n++
						if !inputHasSandbox && a.Val != "" {
							return violation(out, "C12: the input carries no sandbox attribute at all, yet <iframe> is emitted with sandbox=%q instead of the empty (most restrictive) value", a.Val)
						}
						seen := map[string]bool{}
						for _, f := range htmlFields(a.Val) {
							if !m.sandbox[f] {
								return violation(out, "C12: sandbox token %q is not among the values the policy listed", f)
							}
							if !inputSandboxToks[f] {
								return violation(out, "C12: sandbox token %q is granted by the output but is not a token of any sandbox attribute of the input (unlisted tokens are to be removed, not split into listed ones)", f)
							}
							if seen[f] {
								return violation(out, "C12: sandbox token %q is duplicated", f)
							}
							seen[f] = true
						}
					}
				}
				if n == 0 {
					return violation(out, "C12: <iframe> emitted with attributes but without sandbox")
				}
			}
		}
	}
	// NT from the reference reading of the input
	hostileIn := false
	for _, tk := range tokenize(in) {
		if !isOpenTag(tk) {
			continue
		}
		for _, a := range tk.Attr {
			if a.Key == "crossorigin" && a.Val != "anonymous" && m.crossOrigin {
				hostileIn = true
			}
			if a.Key == "sandbox" && m.sandbox != nil {
				seen := map[string]bool{}
				for _, f := range htmlFields(a.Val) {
					if !m.sandbox[f] || seen[f] {
						hostileIn = true
					}
					seen[f] = true
				}
			}
		}
	}
	if m.crossOrigin {
		r.Class("crossorigin_required")
	}
	if m.sandbox != nil {
		r.Class("sandbox_required")
	}
	r.ClassN("affected_output_elements", affected)
	if hostileIn && affected > 0 {
		r.NonTrivial(c.Spec.String()+"\x00"+in, func() any {
			return map[string]any{"policy": c.Spec.String(), "input": q(trunc(in, 300)), "output": q(trunc(out, 300))}
		})
	}
	return nil
}

func init() {
	register(&Prop{ID: "C11", Gen: genC11, Check: checkC11})
	register(&Prop{ID: "C12", Gen: genC12, Check: checkC12})
}

var _ = html.EscapeString
