package props

import (
	"strings"
	"testing"
)

func TestEnd(t *testing.T) {
	for _, c := range []struct {
		in   string
		want string
	}{
		{"a</script>b", "</script>b"},
		{"a</SCRIPT >b", "</SCRIPT >b"},
		{"a</scriptx>b</script/>c", "</script/>c"},
		{"<!--<script></script>x--></script>y", "</script>y"},
		{"<!--<0<script></script>MARK</script>t", "</script>t"},
		{"<!-- x </script>y", "</script>y"},
		{"<!--<script>x</script>MARK", ""},
		{"<!--<script>--></script>y", "</script>y"},
		{"<!--<scriptx></script>y", "</script>y"},
		{"<!--<script </script></script>y</script>z", "</script>y</script>z"},
		{"<!-<script></script>y", "</script>y"},
		{"<!--<script></scriptx></script>M</script>z", "</script>z"},
		{"<!--a--><script></script>y", "</script>y"},
		{"<!---<script></script>x</script>y", "</script>y"},
		{"</", ""}, {"<", ""}, {"<!--<", ""}, {"<!--<script", ""},
	} {
		i := scriptDataEnd(c.in)
		if got := c.in[i:]; got != c.want {
			t.Errorf("%q: rest %q want %q", c.in, got, c.want)
		}
	}
	_ = strings.ToLower
}
