package props

import (
	"encoding/json"
	"os"
	"regexp"
	"strings"
	"unicode"
	"unicode/utf8"

	"github.com/microcosm-cc/bluemonday"
)

// C19 — exported attribute matchers are anchored, closed-alphabet recognisers.
// Bounded-exhaustive: all strings up to a length bound over (matcher's own characters + HTML
// significant ones), plus all 1- and 2-edit neighbours of every documented example. Oracle:
// a hand-written recogniser (plain loops, no regexp) of the documented form.

type matcherSpec struct {
	name     string
	re       *regexp.Regexp
	rec      func(string) bool
	own      string // the matcher's own characters
	examples []string
	maxLen   int // quick tier bound for the exhaustive part
}

func kwRec(words ...string) func(string) bool {
	return func(s string) bool {
		l := asciiLower(s)
		for _, w := range words {
			if l == w {
				return true
			}
		}
		return false
	}
}

func allDigits(s string) bool {
	if s == "" {
		return false
	}
	for i := 0; i < len(s); i++ {
		if s[i] < '0' || s[i] > '9' {
			return false
		}
	}
	return true
}

func recNumber(s string) bool {
	i := 0
	if i < len(s) && (s[i] == '-' || s[i] == '+') {
		i++
	}
	j := i
	for j < len(s) && s[j] >= '0' && s[j] <= '9' {
		j++
	}
	intDigits := j - i
	fracDigits := 0
	if j < len(s) && s[j] == '.' {
		k := j + 1
		for k < len(s) && s[k] >= '0' && s[k] <= '9' {
			k++
		}
		fracDigits = k - j - 1
		if fracDigits == 0 {
			return false
		}
		j = k
	} else if intDigits == 0 {
		return false
	}
	_ = intDigits
	if j < len(s) && (s[j] == 'e' || s[j] == 'E') {
		j++
		if j < len(s) && (s[j] == '-' || s[j] == '+') {
			j++
		}
		k := j
		for k < len(s) && s[k] >= '0' && s[k] <= '9' {
			k++
		}
		if k == j {
			return false
		}
		j = k
	}
	return j == len(s)
}

// recISO8601: YYYY[-MM[-DD[(T| )hh:mm[:ss][.f{1,6}][Z][(+|-)hh:mm]]]] — the documented W3C
// NOTE-datetime forms (with the liberties the pattern takes: space separator, optional TZD).
func recISO8601(s string) bool {
	digits := func(i, n int) bool {
		if i+n > len(s) {
			return false
		}
		return allDigits(s[i : i+n])
	}
	if !digits(0, 4) {
		return false
	}
	i := 4
	if i == len(s) {
		return true
	}
	if s[i] != '-' || !digits(i+1, 2) {
		return false
	}
	i += 3
	if i == len(s) {
		return true
	}
	if s[i] != '-' || !digits(i+1, 2) {
		return false
	}
	i += 3
	if i == len(s) {
		return true
	}
	if (s[i] != 'T' && s[i] != ' ') || !digits(i+1, 2) {
		return false
	}
	i += 3
	if i >= len(s) || s[i] != ':' || !digits(i+1, 2) {
		return false
	}
	i += 3
	if i < len(s) && s[i] == ':' && digits(i+1, 2) {
		i += 3
	}
	if i < len(s) && s[i] == '.' {
		k := i + 1
		for k < len(s) && k-i-1 < 6 && s[k] >= '0' && s[k] <= '9' {
			k++
		}
		if k == i+1 {
			return false
		}
		i = k
	}
	if i < len(s) && s[i] == 'Z' {
		i++
	}
	if i < len(s) && (s[i] == '+' || s[i] == '-') {
		if !digits(i+1, 2) || i+3 >= len(s) || s[i+3] != ':' || !digits(i+4, 2) {
			return false
		}
		i += 6
	}
	return i == len(s)
}

func isREWhitespace(r rune) bool { return r == ' ' || r == '\t' || r == '\n' || r == '\f' || r == '\r' }

func recTokens(s string) bool {
	if s == "" {
		return false
	}
	for i := 0; i < len(s); {
		r, sz := utf8.DecodeRuneInString(s[i:])
		if r == utf8.RuneError && sz == 1 {
			return false
		}
		if !(isREWhitespace(r) || unicode.IsLetter(r) || unicode.IsNumber(r) || r == '_' || r == '-') {
			return false
		}
		i += sz
	}
	return true
}

func recParagraph(s string) bool {
	for i := 0; i < len(s); {
		r, sz := utf8.DecodeRuneInString(s[i:])
		if r == utf8.RuneError && sz == 1 {
			return false
		}
		if !(isREWhitespace(r) || unicode.IsLetter(r) || unicode.IsNumber(r) || strings.ContainsRune(`-_',[]!./\()`, r)) {
			return false
		}
		i += sz
	}
	return true
}

var matcherSpecs = []matcherSpec{
	{"CellAlign", bluemonday.CellAlign, kwRec("center", "justify", "left", "right", "char"), "centrjusifylghaCL", []string{"center", "justify", "left", "right", "char", "CENTER", "Left"}, 4},
	{"CellVerticalAlign", bluemonday.CellVerticalAlign, kwRec("baseline", "bottom", "middle", "top"), "baselinotmdpTB", []string{"baseline", "bottom", "middle", "top", "TOP"}, 4},
	{"Direction", bluemonday.Direction, kwRec("rtl", "ltr"), "rtlRTL", []string{"rtl", "ltr", "RTL", "Ltr"}, 5},
	{"ImageAlign", bluemonday.ImageAlign, kwRec("left", "right", "top", "texttop", "middle", "absmiddle", "baseline", "bottom", "absbottom"), "leftrighopxmdabsnTA",
		[]string{"left", "right", "top", "texttop", "middle", "absmiddle", "baseline", "bottom", "absbottom", "AbsMiddle"}, 4},
	{"Integer", bluemonday.Integer, allDigits, "0123456789", []string{"0", "7", "42", "007", "1234567890"}, 4},
	{"ISO8601", bluemonday.ISO8601, recISO8601, "0129-:.TZ+ ", []string{"1997", "1997-07", "1997-07-16", "1997-07-16T19:20+01:00", "1997-07-16T19:20:30+01:00", "1997-07-16T19:20:30.45+01:00",
		"1997-07-16T19:20Z", "1997-07-16 19:20", "1997-07-16T19:20:30.123456Z"}, 5},
	{"ListType", bluemonday.ListType, kwRec("circle", "disc", "square", "a", "i", "1"), "circledsquaAI1", []string{"circle", "disc", "square", "a", "A", "i", "I", "1", "DISC"}, 4},
	{"SpaceSeparatedTokens", bluemonday.SpaceSeparatedTokens, recTokens, "aZ09_- \t\né", []string{"a", "nofollow noopener", "x-y_z 1", "é ü", "a\tb"}, 4},
	{"Number", bluemonday.Number, recNumber, "019-+.eE", []string{"0", "1.5", "-1", "+.5", "1e10", "1.5E-3", "-0.25e+7", "10"}, 5},
	{"NumberOrPercent", bluemonday.NumberOrPercent, func(s string) bool {
		s = strings.TrimSuffix(s, "%")
		return allDigits(s)
	}, "0129%", []string{"0", "100", "50%", "7%"}, 5},
	{"Paragraph", bluemonday.Paragraph, recParagraph, "aZ09 -_',[]!./\\()\té", []string{"", "Hello, world!", "it's (fine) [ok] a/b\\c", "x_y-z.", "é"}, 3},
}

// characters that matter to HTML plus the two non-ASCII characters Go's (?i) folds into ASCII
var hostileRunes = []string{"<", ">", "\"", "'", "=", "`", "&", ";", "%", "\x00", "\x7f", "\u00a0", "\n", " ", "\u017f", "\u212a", "$", "\x1b", "|", "{", "}", "(", ")", "[", "]", "*", "+", "?", "^", ".", ",", "\\", "/", "-", ":", "#", "@", "~", "!"}

func matcherAlphabet(ms matcherSpec) []string {
	seen := map[string]bool{}
	var out []string
	add := func(s string) {
		if !seen[s] {
			seen[s] = true
			out = append(out, s)
		}
	}
	for _, r := range ms.own {
		add(string(r))
	}
	for _, h := range hostileRunes {
		add(h)
	}
	return out
}

// foldASCII undoes the two non-ASCII simple case foldings of ASCII letters.
func foldASCII(s string) string {
	return strings.NewReplacer("\u017f", "s", "\u212a", "k").Replace(s)
}

func knownClassEnabled(prop, class string) bool {
	path := os.Getenv("VERIF_KNOWN")
	if path == "" {
		path = "../../known_findings.json"
	}
	b, err := os.ReadFile(path)
	if err != nil {
		return false
	}
	var kf struct {
		Findings []struct {
			Property string `json:"property"`
			Status   string `json:"status"`
			Class    string `json:"class"`
		} `json:"findings"`
	}
	if json.Unmarshal(b, &kf) != nil {
		return false
	}
	for _, f := range kf.Findings {
		if f.Property == prop && f.Status == "known" && f.Class == class {
			return true
		}
	}
	return false
}

func matcherByName(name string) *matcherSpec {
	for i := range matcherSpecs {
		if matcherSpecs[i].name == name {
			return &matcherSpecs[i]
		}
	}
	return nil
}

// checkC19 replays one (matcher, string) pair strictly (no known-finding exclusion).
func checkC19(c *Case, r *Rec) error {
	if len(c.Strs) != 2 {
		return nil
	}
	ms := matcherByName(string(c.Strs[0]))
	if ms == nil {
		return nil
	}
	s := string(c.Strs[1])
	if got, want := ms.re.MatchString(s), ms.rec(s); got != want {
		return violation("", "C19: %s.MatchString(%s) = %v but the documented form says %v", ms.name, q(s), got, want)
	}
	return nil
}

func fixedC19(r *Rec, tier string, shard, nshards int) []*Case {
	exclFold := knownClassEnabled("C19", "unicode_case_fold")
	var fails []*Case
	perMatcher := map[string]any{}
	for mi, ms := range matcherSpecs {
		if mi%nshards != shard {
			continue
		}
		ms := ms
		alpha := matcherAlphabet(ms)
		evals, accepted := 0, 0
		var fail *Case
		try := func(s string, neighbour bool) {
			if fail != nil {
				return
			}
			evals++
			got, want := ms.re.MatchString(s), ms.rec(s)
			if got || want || neighbour {
				if got {
					accepted++
				}
				r.NonTrivial(ms.name+"\x00"+s, func() any {
					return map[string]any{"matcher": ms.name, "string": q(s), "matcher_accepts": got, "recogniser_accepts": want}
				})
			}
			if got != want {
				if exclFold && got && !want && foldASCII(s) != s && ms.rec(foldASCII(s)) {
					r.Excluded("unicode_case_fold")
					return
				}
				fail = &Case{Prop: "C19", Strs: []BStr{BStr(ms.name), BStr(s)},
					Clause: "C19: " + ms.name + ".MatchString(" + q(s) + ") = " + bstr(got) + " but the documented form says " + bstr(want)}
			}
		}
		// (i) exhaustive: all strings of length <= L over the alphabet (in length order, so the first
		// failure is a shortest one)
		L := ms.maxLen
		if tier == "thorough" {
			L++
		}
		var rec func(prefix string, left int)
		rec = func(prefix string, left int) {
			if left == 0 {
				try(prefix, false)
				return
			}
			for _, a := range alpha {
				if fail != nil {
					return
				}
				rec(prefix+a, left-1)
			}
		}
		for l := 0; l <= L; l++ {
			rec("", l)
		}
		exhaustiveN := evals
		// (ii) neighbours of the documented examples: all single edits, double substitutions and
		// double insertions
		for _, ex := range ms.examples {
			if got := ms.re.MatchString(ex); !got && fail == nil {
				fail = &Case{Prop: "C19", Strs: []BStr{BStr(ms.name), BStr(ex)}, Clause: "C19: " + ms.name + " rejects its documented example " + q(ex)}
			}
			try(ex, true)
			rs := []rune(ex)
			var edits func(rs []rune, depth int)
			edits = func(rs []rune, depth int) {
				for i := 0; i <= len(rs); i++ {
					for _, a := range alpha {
						// insertion
						n := string(rs[:i]) + a + string(rs[i:])
						try(n, true)
						if depth > 1 {
							edits([]rune(n), depth-1)
						}
						if i < len(rs) {
							// substitution
							n = string(rs[:i]) + a + string(rs[i+1:])
							try(n, true)
							if depth > 1 && (tier == "thorough" || len(rs) <= 12) {
								edits([]rune(n), depth-1)
							}
						}
					}
					if i < len(rs) {
						n := string(rs[:i]) + string(rs[i+1:])
						try(n, true)
					}
				}
			}
			depth := 2
			if len(rs) > 16 && tier != "thorough" {
				depth = 1
			}
			edits(rs, depth)
			if len(rs) > 16 && tier != "thorough" {
				// long examples: double substitutions only around every position pair would be 10^6+;
				// do all pairs over a reduced hostile alphabet
				small := []string{"<", "x", "0", "."}
				for i := 0; i < len(rs); i++ {
					for j := i + 1; j < len(rs); j++ {
						for _, a := range small {
							for _, b := range small {
								n := []rune(string(rs))
								n[i], n[j] = []rune(a)[0], []rune(b)[0]
								try(string(n), true)
							}
						}
					}
				}
			}
		}
		r.EvalN(evals)
		perMatcher[ms.name] = map[string]any{"alphabet_size": len(alpha), "exhaustive_max_len": L, "exhaustive_strings": exhaustiveN, "neighbour_strings": evals - exhaustiveN, "accepted": accepted}
		r.ClassN("matcher:"+ms.name, evals)
		if fail != nil {
			fails = append(fails, fail)
			break
		}
	}
	r.SetExtra("per_matcher", perMatcher)
	return fails
}

func init() { register(&Prop{ID: "C19", Check: checkC19, Fixed: fixedC19}) }
