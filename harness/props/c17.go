package props

import (
	"sort"
	"strings"

	"github.com/microcosm-cc/bluemonday"
	"pgregory.net/rapid"
)

// C17 — a policy is its rule set: independent of call order, case and other instances.
// Histories: a generated program of steps over up to four live policies (state-machine style;
// the program is data so that it can be replayed and is shrunk by rapid as one value).

type Step struct {
	Kind   string `json:"kind"` // new | apply | throwaway | sanitize | check | rebind
	P      int    `json:"p,omitempty"`
	Q      int    `json:"q,omitempty"` // rebind: the other policy that is extended in between
	Base   string `json:"base,omitempty"`
	Op     *Op    `json:"op,omitempty"`
	Ops    []Op   `json:"ops,omitempty"`
	Inputs []BStr `json:"inputs,omitempty"`
	// Conform[i]: a document generated from the model of live policy i's history (check steps)
	Conform []BStr `json:"conform,omitempty"`
	Rnd     []int  `json:"rnd,omitempty"`
}

var ruleOpKinds = map[string]bool{"AllowElements": true, "AllowElementsMatching": true, "AllowAttrs": true, "AllowNoAttrs": true, "AllowStyles": true, "AllowURLSchemesMatching": true,
	"AllowStandardAttributes": true, "AllowStyling": true, "AllowLists": true, "AllowTables": true}

func histSpec(base string, hist []Op) *Spec { return &Spec{Base: base, Ops: append([]Op{}, hist...)} }

func flipCase(s string, rnd *rndSrc) string {
	b := []byte(s)
	for i := range b {
		if b[i] >= 'a' && b[i] <= 'z' && rnd.next(3) == 0 {
			b[i] -= 32
		} else if b[i] >= 'A' && b[i] <= 'Z' && rnd.next(3) == 0 {
			b[i] += 32
		}
	}
	return string(b)
}

type rndSrc struct {
	v []int
	i int
}

func (r *rndSrc) next(n int) int {
	if n <= 0 || len(r.v) == 0 {
		return 0
	}
	x := r.v[r.i%len(r.v)] + r.i/len(r.v)
	r.i++
	if x < 0 {
		x = -x
	}
	return x % n
}

func flipOpNames(o Op, rnd *rndSrc) Op {
	o2 := o
	o2.Names = append([]string{}, o.Names...)
	o2.Attrs = append([]string{}, o.Attrs...)
	for i := range o2.Names {
		o2.Names[i] = flipCase(o2.Names[i], rnd)
	}
	for i := range o2.Attrs {
		o2.Attrs[i] = flipCase(o2.Attrs[i], rnd)
	}
	// one chained expression or separate statements on the builder: same rules either way
	if (o2.Kind == "AllowAttrs" || o2.Kind == "AllowStyles") && rnd.next(3) == 0 {
		o2.Stmt = !o2.Stmt
	}
	return o2
}

// normalForm: rule ops permuted, sometimes duplicated, names case-flipped, merged at random
// positions into the switch ops, which keep their relative order.
func normalForm(hist []Op, rnd *rndSrc) []Op {
	var rules, switches []Op
	for _, o := range hist {
		if ruleOpKinds[o.Kind] {
			rules = append(rules, flipOpNames(o, rnd))
			if rnd.next(4) == 0 {
				rules = append(rules, flipOpNames(o, rnd)) // duplicate
			}
		} else {
			switches = append(switches, flipOpNames(o, rnd))
		}
	}
	for i := len(rules) - 1; i > 0; i-- {
		j := rnd.next(i + 1)
		rules[i], rules[j] = rules[j], rules[i]
	}
	var out []Op
	for len(rules) > 0 || len(switches) > 0 {
		if len(switches) == 0 || (len(rules) > 0 && rnd.next(2) == 0) {
			out = append(out, rules[0])
			rules = rules[1:]
		} else {
			out = append(out, switches[0])
			switches = switches[1:]
		}
	}
	return out
}

var c17Kinds = func() []string {
	k := append([]string{}, defaultOpKinds...)
	k = append(k, "AllowAttrs", "AllowAttrs", "AllowAttrs", "AllowElements", "AllowStyles", "AllowStyles", "AllowStyles", "AllowStyles", "AllowStyles", "AllowStyles", "AllowStyles", "AllowStyles", "SkipElementsContent", "AllowElementsContent", "AllowURLSchemes", "AllowURLSchemeWithCustomPolicy",
		"RequireSandboxOnIFrame", "AllowRelativeURLs", "RequireParseableURLs")
	return k
}()

// small pools so that several ops touch the same element / attribute / property
var c17Opts = &SpecOpts{ElPool: []string{"a", "b", "p", "div", "span", "img", "title", "object", "my-x", "iframe", "script", "td", "quiz"},
	AtPool: []string{"href", "src", "id", "class", "title", "rel", "style", "align", "sandbox", "data-x", "size"},
	StPool: []string{"color", "width", "text-align", "font-size", "z-index", "-webkit-color"}}

func genC17(t *rapid.T) *Case {
	c := &Case{}
	type live struct {
		base string
		hist []Op
	}
	var pols []live
	addNew := func() {
		base := rapid.SampledFrom([]string{"New", "New", "UGC", "Strict", "Zero"}).Draw(t, "base")
		pols = append(pols, live{base: base})
		c.Steps = append(c.Steps, Step{Kind: "new", Base: base})
	}
	addNew()
	n := rapid.IntRange(4, 30).Draw(t, "nsteps")
	drawInputs := func() []BStr {
		// soup biased to the vocabulary of all live histories
		merged := &Spec{Base: "New"}
		for _, p := range pols {
			merged.Ops = append(merged.Ops, p.hist...)
		}
		m := BuildModel(merged)
		k := rapid.IntRange(2, 4).Draw(t, "ninputs")
		var ins []BStr
		for i := 0; i < k; i++ {
			ins = append(ins, BStr(genSoup(t, m, &soupOpts{maxFrags: 8, els: c17Opts.ElPool, attrs: c17Opts.AtPool})))
		}
		// one input that exercises the style rules of the live histories with values at the boundary
		// of the matchers (handlers of different policies must not influence each other)
		if sv := m.styleVocabulary(); len(sv) > 0 {
			var sb strings.Builder
			for j := rapid.IntRange(1, 3).Draw(t, "nstyled"); j > 0; j-- {
				el := rapid.SampledFrom(append([]string{"span", "span", "span"}, c17Opts.ElPool...)).Draw(t, "sel")
				var ds []string
				for d := rapid.IntRange(1, 3).Draw(t, "nsd"); d > 0; d-- {
					ds = append(ds, rapid.SampledFrom(sv).Draw(t, "sprop")+": "+rapid.SampledFrom([]string{"teal", "plum", "red", "1px", "left", "blue", "10px", "#fff", "alpha beta"}).Draw(t, "sval"))
				}
				sb.WriteString("<" + el + ` id="i" style="` + strings.Join(ds, "; ") + `">t</` + el + ">")
			}
			ins = append(ins, BStr(sb.String()))
		}
		return ins
	}
	drawConform := func() []BStr {
		var docs []BStr
		for _, p := range pols {
			doc, _, _, ok := genConform(t, BuildModel(histSpec(p.base, p.hist)))
			if !ok {
				doc = ""
			}
			docs = append(docs, BStr(doc))
		}
		return docs
	}
	drawRnd := func() []int {
		return rapid.SliceOfN(rapid.IntRange(0, 1000), 8, 8).Draw(t, "rnd")
	}
	for i := 0; i < n; i++ {
		switch rapid.IntRange(0, 9).Draw(t, "step") {
		case 0:
			if len(pols) < 4 {
				addNew()
			}
		case 1, 2, 3, 4, 5:
			pi := rapid.IntRange(0, len(pols)-1).Draw(t, "pi")
			if len(pols) >= 2 && rapid.IntRange(0, 9).Draw(t, "rebind") == 0 {
				// one builder value bound twice (OnElements, later OnElementsMatching) with a builder
				// call on ANOTHER policy in between: both rules belong to the first policy
				qi := (pi + 1 + rapid.IntRange(0, len(pols)-2).Draw(t, "qi")) % len(pols)
				op := Op{Kind: "AllowAttrs", Attrs: subset(t, c17Opts.AtPool, 1, 2, "rbattr"), Scope: "els", Names: subset(t, c17Opts.ElPool, 1, 2, "rbel"),
					ElRe: rapid.IntRange(0, 9).Draw(t, "rbelre"), ValRe: rapid.SampledFrom([]int{-1, -1, 0, 3, 4}).Draw(t, "rbre")}
				second := op
				second.Scope, second.Names = "elre", nil
				other := Op{Kind: "AllowAttrs", Attrs: []string{"title"}, Scope: "els", Names: []string{"quiz"}, ValRe: -1}
				pols[pi].hist = append(pols[pi].hist, op, second)
				pols[qi].hist = append(pols[qi].hist, other)
				c.Steps = append(c.Steps, Step{Kind: "rebind", P: pi, Q: qi, Op: &op, Ops: []Op{second, other}})
				continue
			}
			if rapid.IntRange(0, 7).Draw(t, "styled") == 0 {
				// a complete inline-style configuration whose handler is one of several closures of the
				// same function literal: what one instance's handler decided must not leak into another's
				for _, op := range []Op{
					{Kind: "AllowElements", Names: []string{"span"}, ValRe: -1},
					{Kind: "AllowAttrs", Attrs: []string{"style"}, Scope: "global", ValRe: -1},
					{Kind: "AllowStyles", Attrs: []string{rapid.SampledFrom([]string{"color", "width"}).Draw(t, "stp")}, Scope: "global", ValRe: -1,
						Match: "fn", Fn: rapid.IntRange(4, 6).Draw(t, "stfn")},
				} {
					op := op
					pols[pi].hist = append(pols[pi].hist, op)
					c.Steps = append(c.Steps, Step{Kind: "apply", P: pi, Op: &op})
				}
				continue
			}
			if rapid.IntRange(0, 7).Draw(t, "schemeSwitch") == 0 {
				// a scheme registered twice, once with a custom check and once plainly (directly or
				// through a helper), in either order: the registration reflects the most recent call
				sch := rapid.SampledFrom([]string{"http", "https", "mailto", "HTTP"}).Draw(t, "ssch")
				custom := Op{Kind: "AllowURLSchemeWithCustomPolicy", Names: []string{sch}, Fn: rapid.SampledFrom([]int{0, 2, 3}).Draw(t, "ssfn"), ValRe: -1}
				plain := Op{Kind: rapid.SampledFrom([]string{"AllowURLSchemes", "AllowStandardURLs", "AllowImages"}).Draw(t, "ssplain"), ValRe: -1}
				if plain.Kind == "AllowURLSchemes" {
					plain.Names = []string{sch}
				}
				ops := []Op{{Kind: "AllowAttrs", Attrs: []string{"href", "src"}, Scope: "els", Names: []string{"a", "img"}, ValRe: -1}, custom, plain}
				if rapid.Bool().Draw(t, "ssorder") {
					ops[1], ops[2] = ops[2], ops[1]
				}
				for _, op := range ops {
					op := op
					pols[pi].hist = append(pols[pi].hist, op)
					c.Steps = append(c.Steps, Step{Kind: "apply", P: pi, Op: &op})
				}
				continue
			}
			op := genOp(t, rapid.SampledFrom(c17Kinds).Draw(t, "kind"), c17Opts)
			pols[pi].hist = append(pols[pi].hist, op)
			c.Steps = append(c.Steps, Step{Kind: "apply", P: pi, Op: &op})
		case 6:
			// build another shipped policy and mutate it heavily, then drop it
			var ops []Op
			for j := rapid.IntRange(2, 6).Draw(t, "nthrow"); j > 0; j-- {
				ops = append(ops, genOp(t, rapid.SampledFrom(c17Kinds).Draw(t, "kind"), c17Opts))
			}
			ops = append(ops, Op{Kind: "AllowElementsContent", Names: []string{"script", "style", "title", "object", "iframe"}, ValRe: -1}, Op{Kind: "SkipElementsContent", Names: []string{"p", "div", "b"}, ValRe: -1},
				Op{Kind: "AllowNoAttrs", Scope: "els", Names: []string{"a", "img", "span"}, ValRe: -1})
			c.Steps = append(c.Steps, Step{Kind: "throwaway", Base: rapid.SampledFrom([]string{"UGC", "New", "Strict"}).Draw(t, "tbase"), Ops: ops})
		case 7:
			c.Steps = append(c.Steps, Step{Kind: "sanitize", P: rapid.IntRange(0, len(pols)-1).Draw(t, "pi"), Inputs: drawInputs()})
		default:
			c.Steps = append(c.Steps, Step{Kind: "check", Inputs: drawInputs(), Conform: drawConform(), Rnd: drawRnd()})
		}
	}
	c.Steps = append(c.Steps, Step{Kind: "check", Inputs: drawInputs(), Conform: drawConform(), Rnd: drawRnd()})
	return c
}

type keptCounts map[string]int

func countKept(out string) keptCounts {
	k := keptCounts{}
	for _, t := range tokenize(out) {
		// start and self-closing tags only: whether an END tag is written also depends on the
		// closing-tag stack, which on ill-nested input is not monotone in the rule set (a dropped
		// <my-x> left open makes a later </object> survive)
		if isOpenTag(t) {
			k["tag "+t.Name]++
			for _, a := range t.Attr {
				k["attr "+t.Name+" "+a.Key]++
			}
		}
	}
	return k
}

type livePolicy struct {
	p    *bluemonday.Policy
	base string
	hist []Op
	memo []memoEntry
}

type memoEntry struct {
	in, out string
	histLen int
}

func checkC17(c *Case, r *Rec) error {
	var pols []*livePolicy
	nChecks, ntSeen := 0, false
	for si, st := range c.Steps {
		switch st.Kind {
		case "new":
			pols = append(pols, &livePolicy{p: Build(&Spec{Base: st.Base}, nil), base: st.Base})
		case "apply":
			if st.P < len(pols) && st.Op != nil {
				lp := pols[st.P]
				ApplyOp(lp.p, *st.Op, nil)
				lp.hist = append(lp.hist, *st.Op)
				lp.memo = nil
			}
		case "rebind":
			if st.P < len(pols) && st.Q < len(pols) && st.P != st.Q && st.Op != nil && len(st.Ops) == 2 {
				lp, lq := pols[st.P], pols[st.Q]
				b := lp.p.AllowAttrs(st.Op.Attrs...)
				if st.Op.ValRe >= 0 {
					b = b.Matching(valRePool[st.Op.ValRe].re)
				}
				b.OnElements(st.Op.Names...)
				ApplyOp(lq.p, st.Ops[1], nil)
				b.OnElementsMatching(elRePool[st.Op.ElRe])
				lp.hist = append(lp.hist, *st.Op, st.Ops[0])
				lq.hist = append(lq.hist, st.Ops[1])
				lp.memo, lq.memo = nil, nil
			}
		case "throwaway":
			tp := Build(&Spec{Base: st.Base}, nil)
			for _, o := range st.Ops {
				ApplyOp(tp, o, nil)
			}
			tp.Sanitize("<p>x</p><script>y</script><title>t</title>")
		case "sanitize":
			if st.P < len(pols) {
				for _, in := range st.Inputs {
					pols[st.P].p.Sanitize(string(in))
				}
			}
		case "check":
			nChecks++
			rnd := &rndSrc{v: st.Rnd}
			for pi, lp := range pols {
				// (0) behaviour observed earlier with the same history must not have changed (other
				// instances were built/extended and inputs were sanitised in between)
				for _, me := range lp.memo {
					if me.histLen == len(lp.hist) {
						if got := lp.p.Sanitize(me.in); got != me.out {
							return violation(got, "C17: policy #%d (%s) returned %s for input %s earlier and returns %s now although it was not modified: another instance or an earlier call changed it (step %d)",
								pi, histSpec(lp.base, lp.hist).String(), q(trunc(me.out, 150)), q(trunc(me.in, 150)), q(trunc(got, 150)), si)
						}
					}
				}
				isolated := Build(histSpec(lp.base, lp.hist), nil)
				var m *Model
				nfOps := normalForm(lp.hist, rnd)
				nf := Build(histSpec(lp.base, nfOps), nil)
				// (c) drop one rule op
				var dropped *bluemonday.Policy
				var ruleIdx []int
				for i, o := range lp.hist {
					// style rules are left out here: adding the first style rule for an element turns its
					// style attribute from an ordinary attribute into a filtered one (documented), which is
					// not monotone; their accumulation is covered by (b), C07 and C10
					if ruleOpKinds[o.Kind] && o.Kind != "AllowStyles" {
						ruleIdx = append(ruleIdx, i)
					}
				}
				if len(ruleIdx) > 0 {
					di := ruleIdx[rnd.next(len(ruleIdx))]
					less := append(append([]Op{}, lp.hist[:di]...), lp.hist[di+1:]...)
					mFull, mLess := BuildModel(histSpec(lp.base, lp.hist)), BuildModel(histSpec(lp.base, less))
					shadow := false
					for name := range mFull.els {
						if !mLess.els[name] && mLess.MatchesPattern(name) {
							shadow = true // documented: an explicitly named element ignores matching patterns
						}
					}
					for name, sr := range mFull.elStyles {
						if len(sr) > 0 && len(mLess.elStyles[name]) == 0 {
							for re := range mLess.reStyles {
								if re.MatchString(name) {
									shadow = true
								}
							}
						}
					}
					if shadow {
						r.Excluded("documented_shadowing_of_patterns_by_named_elements")
					} else {
						dropped = Build(histSpec(lp.base, less), nil)
					}
				}
				// (e) lower bound: a document written in the vocabulary of the policy's own history passes
				// unchanged (modulo attributes the policy adds), whatever order the history was given in
				// and whatever other instances did
				if pi < len(st.Conform) && strings.TrimSpace(string(st.Conform[pi])) != "" {
					if m == nil {
						m = BuildModel(histSpec(lp.base, lp.hist))
					}
					doc := string(st.Conform[pi])
					outDoc := lp.p.Sanitize(doc)
					if hasEmptyFragmentURL(doc) || hasMarkupCharsInRawText(doc) {
						// known finding D38 (C07 / C04): an empty fragment is not written back
						r.Excluded("e_not_asserted_on_documents_with_an_empty_fragment_url")
					} else if _, err := sameModuloForced(m, doc, outDoc); err != nil {
						return violation(outDoc, "C17(e): policy #%d with history %s does not pass a document of its own vocabulary: %v (document %s)", pi, histSpec(lp.base, lp.hist).String(), err, q(trunc(doc, 200)))
					}
				}
				for _, inb := range st.Inputs {
					in := string(inb)
					got := lp.p.Sanitize(in)
					lp.memo = append(lp.memo, memoEntry{in, got, len(lp.hist)})
					// (d) whatever else happened in this process, the policy must not keep more than the model
					// of ITS OWN history allows (elements, attributes, bare elements)
					if m == nil {
						m = BuildModel(histSpec(lp.base, lp.hist))
					}
					inToks, outToks := tokenize(in), tokenize(got)
					if err := checkElements(m, in, got, inToks, outToks); err != nil {
						return violation(got, "C17(d): policy #%d with history %s: %v (input %s)", pi, histSpec(lp.base, lp.hist).String(), err, q(trunc(in, 150)))
					}
					if _, err := checkAttributes(m, newLog(), in, got, inToks, outToks, nil); err != nil {
						return violation(got, "C17(d): policy #%d with history %s: %v (input %s)", pi, histSpec(lp.base, lp.hist).String(), err, q(trunc(in, 150)))
					}
					if _, err := checkStyleSafety(m, got, outToks, nil); err != nil {
						return violation(got, "C17(d): policy #%d with history %s: %v (input %s)", pi, histSpec(lp.base, lp.hist).String(), err, q(trunc(in, 150)))
					}
					if iso := isolated.Sanitize(in); iso != got {
						return violation(got, "C17(a): policy #%d built interleaved with others returns %s, the same builder calls in isolation return %s (history %s, input %s)",
							pi, q(trunc(got, 150)), q(trunc(iso, 150)), histSpec(lp.base, lp.hist).String(), q(trunc(in, 150)))
					}
					if n := nf.Sanitize(in); n != got {
						return violation(got, "C17(b): history %s returns %s, its reordered/case-flipped/duplicated equivalent %s returns %s (input %s)",
							histSpec(lp.base, lp.hist).String(), q(trunc(got, 150)), histSpec(lp.base, nfOps).String(), q(trunc(n, 150)), q(trunc(in, 150)))
					}
					if dropped != nil && hasTagNamed(inToks, m.skip) {
						// not monotone on inputs with skip-content elements: whether a (possibly stray) tag of such
						// an element moves the skip counter depends on whether the element is allowed
						r.Excluded("c_not_asserted_on_inputs_with_skip_content_elements")
					} else if dropped != nil {
						full, less := countKept(got), countKept(dropped.Sanitize(in))
						keys := make([]string, 0, len(less))
						for k := range less {
							keys = append(keys, k)
						}
						sort.Strings(keys)
						for _, k := range keys {
							if less[k] > full[k] {
								return violation(got, "C17(c): removing one rule from history %s makes the policy keep more (%s: %d instead of %d) on input %s: rules do not accumulate",
									histSpec(lp.base, lp.hist).String(), k, less[k], full[k], q(trunc(in, 150)))
							}
						}
					}
					if strings.Contains(got, "<") && len(lp.hist) >= 4 && len(pols) >= 2 && overlapping(lp.hist) {
						ntSeen = true
					}
				}
			}
		}
	}
	r.ClassN("check_steps", nChecks)
	r.ClassN("steps", len(c.Steps))
	if ntSeen {
		key := ""
		for _, st := range c.Steps {
			key += st.Kind
			if st.Op != nil {
				key += st.Op.String()
			}
			for _, in := range st.Inputs {
				key += string(in)
			}
		}
		r.NonTrivial(key, func() any {
			var prog []string
			for _, st := range c.Steps {
				switch st.Kind {
				case "new":
					prog = append(prog, "new "+st.Base)
				case "apply":
					prog = append(prog, "p"+itoa(st.P)+"."+st.Op.String())
				case "check", "sanitize":
					prog = append(prog, st.Kind+"("+itoa(len(st.Inputs))+" inputs)")
				default:
					prog = append(prog, st.Kind)
				}
			}
			return map[string]any{"program": prog}
		})
	}
	return nil
}

// overlapping: do at least two ops of the history touch the same element, attribute or property?
func overlapping(hist []Op) bool {
	seen := map[string]int{}
	for _, o := range hist {
		local := map[string]bool{}
		for _, n := range o.Names {
			local["n:"+strings.ToLower(n)] = true
		}
		for _, a := range o.Attrs {
			local["a:"+strings.ToLower(a)] = true
		}
		for k := range local {
			seen[k]++
			if seen[k] >= 2 {
				return true
			}
		}
	}
	return false
}

func init() { register(&Prop{ID: "C17", Gen: genC17, Check: checkC17}) }
