package props

// scriptDataEnd is a transcription of the WHATWG tokenizer's script data states (13.2.5.4,
// 13.2.5.15-13.2.5.31): given the text that follows a <script ...> start tag it returns the offset
// at which the end tag that closes the element begins (the '<' of "</script"), or len(s) when the
// element is never closed. It is written from the standard, not from golang.org/x/net/html.
func scriptDataEnd(s string) int {
	const (
		data = iota
		escaped
		escapedDash
		escapedDashDash
		doubleEscaped
		doubleEscapedDash
		doubleEscapedDashDash
	)
	isAlpha := func(c byte) bool { return c >= 'a' && c <= 'z' || c >= 'A' && c <= 'Z' }
	isEnd := func(c byte) bool {
		return c == ' ' || c == '\t' || c == '\n' || c == '\f' || c == '\r' || c == '/' || c == '>'
	}
	// tagNameAt: s[i:] starts with letters; returns the lower-cased run of letters and the index after it
	nameAt := func(i int) (string, int) {
		j := i
		b := []byte{}
		for j < len(s) && isAlpha(s[j]) {
			c := s[j]
			if c >= 'A' && c <= 'Z' {
				c += 'a' - 'A'
			}
			b = append(b, c)
			j++
		}
		return string(b), j
	}
	// endTagAt: s[i:] starts with "</"; true when it is an appropriate end tag (name "script"
	// followed by white space, '/' or '>')
	endTagAt := func(i int) bool {
		if i+2 >= len(s) || !isAlpha(s[i+2]) {
			return false
		}
		name, j := nameAt(i + 2)
		return name == "script" && j < len(s) && isEnd(s[j])
	}
	st := data
	i := 0
	for i < len(s) {
		c := s[i]
		switch st {
		case data:
			if c != '<' {
				i++
				continue
			}
			// script data less-than sign state
			if i+1 < len(s) && s[i+1] == '/' {
				if endTagAt(i) {
					return i
				}
				i += 2
				continue
			}
			if i+1 < len(s) && s[i+1] == '!' {
				// script data escape start: "<!" then "-" then "-"
				i += 2
				if i < len(s) && s[i] == '-' {
					i++
					if i < len(s) && s[i] == '-' {
						i++
						st = escapedDashDash
					}
				}
				continue
			}
			i++
		case escaped, escapedDash, escapedDashDash:
			switch {
			case c == '-':
				if st == escaped {
					st = escapedDash
				} else {
					st = escapedDashDash
				}
				i++
			case c == '<':
				// script data escaped less-than sign state
				if i+1 < len(s) && s[i+1] == '/' {
					if endTagAt(i) {
						return i
					}
					st = escaped
					i += 2
					continue
				}
				if i+1 < len(s) && isAlpha(s[i+1]) {
					// script data double escape start state
					name, j := nameAt(i + 1)
					if j < len(s) && isEnd(s[j]) && name == "script" {
						st = doubleEscaped
						i = j + 1
					} else {
						st = escaped
						i = j // reconsume the character after the letters in the escaped state
					}
					continue
				}
				st = escaped
				i++ // anything else: reconsume in the script data ESCAPED state
			case c == '>' && st == escapedDashDash:
				st = data
				i++
			default:
				st = escaped
				i++
			}
		case doubleEscaped, doubleEscapedDash, doubleEscapedDashDash:
			switch {
			case c == '-':
				if st == doubleEscaped {
					st = doubleEscapedDash
				} else {
					st = doubleEscapedDashDash
				}
				i++
			case c == '<':
				// script data double escaped less-than sign state
				if i+1 < len(s) && s[i+1] == '/' {
					// script data double escape end state
					name, j := nameAt(i + 2)
					if j < len(s) && isEnd(s[j]) && name == "script" {
						st = escaped
						i = j + 1
					} else {
						st = doubleEscaped
						i = j // reconsume what follows "</" and the letters in the double escaped state
					}
					continue
				}
				st = doubleEscaped
				i++
			case c == '>' && st == doubleEscapedDashDash:
				st = data
				i++
			default:
				st = doubleEscaped
				i++
			}
		}
	}
	return len(s)
}
