package props

import (
	"bytes"
	"fmt"
	"net/url"
	"os"
	"regexp"
	"runtime"
	"sort"
	"strings"
	"sync"
	"time"

	"github.com/microcosm-cc/bluemonday"
	"github.com/microcosm-cc/bluemonday/css"
	"pgregory.net/rapid"
)

// C14 — sanitising always returns promptly and never panics.
// (i) rapid: every policy spec x soup/bytes through every entry point, panics recovered, per-call
//     budget; (ii) deterministic size-parameterised families with absolute budgets.

const (
	soupBudget   = 10 * time.Second
	tokenBudget  = 10 * time.Second
	structBudget = 30 * time.Second
)

// hardFail is used when a call exceeds its budget: the goroutine cannot be killed, so the replay
// and the evidence part are written and the process exits.
func hardFail(c *Case, r *Rec, clause string) {
	c.Prop = "C14"
	saveReplay(c, &Violation{Clause: clause})
	fmt.Printf("C14 violated: %s\n", clause)
	r.writePart(1)
	os.Exit(1)
}

type callResult struct {
	out      string
	panicked any
	elapsed  time.Duration
	timedOut bool
}

// timedCall runs f in a goroutine with panic recovery and an absolute budget.
func timedCall(budget time.Duration, f func() string) callResult {
	ch := make(chan callResult, 1)
	start := time.Now()
	go func() {
		var res callResult
		defer func() {
			if x := recover(); x != nil {
				res.panicked = x
			}
			res.elapsed = time.Since(start)
			ch <- res
		}()
		res.out = f()
	}()
	select {
	case res := <-ch:
		return res
	case <-time.After(budget):
		return callResult{timedOut: true, elapsed: time.Since(start)}
	}
}

var everythingPolicy = sync.OnceValue(func() *bluemonday.Policy {
	p := bluemonday.UGCPolicy()
	p.AllowAttrs("style").Globally()
	p.AllowStyles(cssProps...).Globally()
	p.AllowDataAttributes()
	p.AllowDataURIImages()
	p.AllowComments()
	p.AllowElementsMatching(regexp.MustCompile(`^my-`))
	p.AllowAttrs("class").OnElementsMatching(regexp.MustCompile(`^x-`))
	p.AllowNoAttrs().OnElementsMatching(regexp.MustCompile(`-y$`))
	p.AllowAttrs("src").OnElements("img", "video", "audio", "source", "iframe")
	p.AllowAttrs("href").OnElements("a", "link")
	p.RewriteSrc(func(u *url.URL) { u.Host = "proxy.test" })
	p.RequireNoReferrerOnLinks(true)
	p.AddTargetBlankToFullyQualifiedLinks(true)
	p.RequireCrossOriginAnonymous(true)
	p.AllowIFrames(bluemonday.SandboxAllowScripts)
	p.AddSpaceWhenStrippingTag(true)
	return p
})

func genC14(t *rapid.T) *Case {
	c := &Case{}
	switch rapid.IntRange(0, 7).Draw(t, "everything") {
	case 0, 1:
		c.Kind = "everything"
		c.Spec = &Spec{Base: "UGC"}
	case 2:
		// a src rewriter with any subset of the URL options (possibly none): the rewriter's
		// argument must be usable whatever the src looks like
		c.Spec = &Spec{Base: rapid.SampledFrom([]string{"New", "Zero"}).Draw(t, "rwbase"), Ops: []Op{
			{Kind: "AllowAttrs", Attrs: []string{"src", "href", "id"}, ValRe: -1, Scope: rapid.SampledFrom([]string{"global", "els"}).Draw(t, "rwscope"), Names: []string{"img", "video", "audio", "source", "iframe", "embed", "track", "input", "a"}},
			{Kind: "AllowElements", Names: []string{"img", "video", "audio", "source", "iframe", "embed", "track", "input", "a"}, ValRe: -1},
			{Kind: "RewriteSrc", Fn: rapid.IntRange(0, len(rewriters)-1).Draw(t, "rwfn"), ValRe: -1}}}
		for _, k := range []string{"RequireParseableURLs", "AllowRelativeURLs", "AllowStandardURLs", "AllowDataURIImages"} {
			if rapid.IntRange(0, 2).Draw(t, "rw_"+k) == 0 {
				c.Spec.Ops = append(c.Spec.Ops, Op{Kind: k, B: true, ValRe: -1})
			}
		}
	default:
		c.Spec = genSpec(t, nil)
	}
	m := BuildModel(c.Spec)
	switch rapid.IntRange(0, 4).Draw(t, "inputKind") {
	case 4:
		c.Input = BStr(genCorpusMutation(t))
	case 0:
		c.Input = BStr(rapid.SliceOfN(rapid.Byte(), 0, 200).Draw(t, "bytes"))
	case 1:
		// soup with byte mutations
		b := []byte(genSoup(t, m, nil))
		for i := rapid.IntRange(0, 4).Draw(t, "nmut"); i > 0 && len(b) > 0; i-- {
			b[rapid.IntRange(0, len(b)-1).Draw(t, "mpos")] = rapid.Byte().Draw(t, "mb")
		}
		c.Input = BStr(b)
	default:
		c.Input = BStr(genSoup(t, m, &soupOpts{maxFrags: 20, els: []string{"img", "video", "audio", "source", "iframe", "a"}, attrs: []string{"style", "style", "src", "src", "href"}}))
	}
	return c
}

func entryPoints(p *bluemonday.Policy, in string) []func() string {
	return []func() string{
		func() string { return p.Sanitize(in) },
		func() string { return string(p.SanitizeBytes([]byte(in))) },
		func() string { return p.SanitizeReader(strings.NewReader(in)).String() },
		func() string {
			var b bytes.Buffer
			if err := p.SanitizeReaderToWriter(strings.NewReader(in), &b); err != nil {
				return ""
			}
			return b.String()
		},
	}
}

var entryNames = []string{"Sanitize", "SanitizeBytes", "SanitizeReader", "SanitizeReaderToWriter"}

func checkC14(c *Case, r *Rec) error {
	in := string(c.Input)
	switch c.Kind {
	case "handler":
		// replay of a family member: strs = [property, value]
		if len(c.Strs) == 2 {
			h := css.GetDefaultHandler(string(c.Strs[0]))
			v := string(c.Strs[1])
			res := timedCall(tokenBudget, func() string { h(v); return "" })
			if res.panicked != nil {
				return violation("", "C14: default handler for %q panics on %s: %v", c.Strs[0], q(trunc(v, 200)), res.panicked)
			}
			if res.timedOut {
				return violation("", "C14: default handler for %q does not return within %v on a %d-byte value %s", c.Strs[0], tokenBudget, len(v), q(trunc(v, 200)))
			}
		}
		return nil
	case "family":
		p := everythingPolicy()
		res := timedCall(structBudget, func() string { return p.Sanitize(in) })
		if res.panicked != nil {
			return violation("", "C14: Sanitize panics on a structural family member (%d bytes): %v", len(in), res.panicked)
		}
		if res.timedOut {
			return violation("", "C14: Sanitize does not return within %v on a %d-byte structural family member %s", structBudget, len(in), q(trunc(in, 120)))
		}
		return nil
	}
	var p *bluemonday.Policy
	if c.Kind == "everything" {
		p = everythingPolicy()
	} else {
		p = Build(c.Spec, nil)
	}
	kinds := map[string]bool{}
	for _, t := range tokenize(in) {
		kinds[t.Type.String()] = true
	}
	for i, f := range entryPoints(p, in) {
		res := timedCall(soupBudget, f)
		if res.panicked != nil {
			return violation("", "C14: %s panics: %v", entryNames[i], res.panicked)
		}
		if res.timedOut {
			hardFail(c, r, fmt.Sprintf("C14: %s does not return within %v on a %d-byte input", entryNames[i], soupBudget, len(in)))
		}
	}
	if c.Kind == "everything" {
		r.Class("everything_policy")
	}
	if len(kinds) >= 3 {
		r.NonTrivial(c.Spec.String()+c.Kind+"\x00"+in, func() any {
			return map[string]any{"policy": c.Spec.String() + " " + c.Kind, "input": q(trunc(in, 300)), "token_kinds": len(kinds)}
		})
	}
	return nil
}

// ---------------------------------------------------------------------------------------------
// families

type famTiming struct {
	Family string  `json:"family"`
	N      int     `json:"n"`
	Bytes  int     `json:"bytes"`
	MS     float64 `json:"ms"`
}

func rep(s string, n int) string { return strings.Repeat(s, n) }

func structuralFamilies(n int) map[string]string {
	return map[string]string{
		"nest_kept_b":                rep("<b>", n) + "x" + rep("</b>", n),
		"nest_dropped_bare_a":        rep("<a>", n) + "x" + rep("</a>", n),
		"nest_skipped_object":        rep("<object>", n) + "x" + rep("</object>", n),
		"nest_unknown":               rep("<zz>", n) + "x" + rep("</zz>", n),
		"kept_in_dropped_same_name":  rep("<a>", n) + rep(`<a href="/x">`, n) + "x" + rep("</a>", 2*n),
		"alternating_same_name":      rep(`<a><a href="/x">`, n) + "x" + rep("</a>", 2*n),
		"kept_other_name_in_dropped": rep("<a>", n) + rep("<b>", n) + "x" + rep("</b>", n) + rep("</a>", n),
		"many_attributes":            "<p " + rep(`title="a" `, n) + ">x</p>",
		"many_distinct_attributes":   "<p " + manyAttrs(n) + ">x</p>",
		"stray_end_tags":             rep("</b>", n) + rep("</a>", n),
		"unclosed_open_tags":         rep("<i>", n),
		"escapes_in_style_value":     `<p style="font-family: ` + rep(`\61 `, n) + `">x</p>`,
		"many_declarations":          `<p style="` + rep("color: red;", n) + `">x</p>`,
		"long_data_attribute_name":   "<p data-" + rep("a", n) + `="1" data-` + rep("data-", n) + `x="2">x</p>`,
		"pattern_elements":           rep("<my-x>", n) + "x" + rep("</my-x>", n),
		"rel_tokens":                 `<a href="http://x.y/" rel="` + rep("nofollowx ", n) + `">x</a>`,
		"sandbox_tokens":             `<iframe sandbox="` + rep("allow-scripts x ", n) + `"></iframe>`,
		"long_url_query":             `<a href="http://x.y/?` + rep("a=1&", n) + `">x</a>`,
		"comments":                   rep("<!-- c -->", n),
		"entities":                   rep("&amp;&#x3c;&notit;", n),
		"void_dropped_bare":          rep("<img>", n) + rep("</a>", n),
		"frames_in_p":                "<p>" + rep("<frame>", n) + "x</p>",
		"folded_base64_data_uri":     `<img src="data:image/png;base64,` + rep("iVBO\n", n) + `">`,
		"percent_escapes_in_url":     `<a href="http://x.y/` + rep("%41%zz", n) + `">x</a>`,
		"style_nested_parens":        `<p style="color: ` + rep("(", n) + rep(")", n) + `">x</p>`,

		"style_unterminated_quotes":   `<p style="font-family: ` + rep("'a", n) + `">x</p>`,
		"style_comments":              `<p style="` + rep("/* c */ color: red; ", n) + `">x</p>`,
		"style_backslashes":           `<p style="color: ` + rep("\\", n) + `">x</p>`,
		"entities_in_attribute":       `<p title="` + rep("&amp;&#x3c;&notit;", n) + `">x</p>`,
		"long_tag_name":               "<" + rep("a", n) + ">x</" + rep("a", n) + ">",
		"nul_bytes_and_invalid_utf8":  rep("\x00\xff<b\x00>", n),
		"custom_elements_distinct":    customEls(n),
		"same_attribute_repeated_url": "<a " + rep(`href="http://x.y/" `, n) + ">x</a>",
		"mixed_dropped_and_kept":      rep(`<a><b><a href="/x"><i>`, n) + "x" + rep("</i></a></b></a>", n),
		"cdata_and_pi":                rep("<![CDATA[x]]><?pi y?>", n),
	}
}

func customEls(n int) string {
	var sb strings.Builder
	for i := 0; i < n; i++ {
		fmt.Fprintf(&sb, "<my-e%d class=\"c\">", i)
	}
	sb.WriteString("x")
	for i := n - 1; i >= 0; i-- {
		fmt.Fprintf(&sb, "</my-e%d>", i)
	}
	return sb.String()
}

func manyAttrs(n int) string {
	var sb strings.Builder
	for i := 0; i < n; i++ {
		fmt.Fprintf(&sb, `a%d="v" `, i)
	}
	return sb.String()
}

func fixedC14(r *Rec, tier string, shard, nshards int) []*Case {
	var timings []famTiming
	var mu sync.Mutex
	record := func(f string, n, b int, d time.Duration) {
		mu.Lock()
		timings = append(timings, famTiming{f, n, b, float64(d.Microseconds()) / 1000})
		mu.Unlock()
	}
	// ---- shorthand-token families, one per default handler: n tokens from the handler's own
	// vocabulary followed by a non-matching tail
	sizes := []int{8, 16, 24, 32, 48, 64, 65, 72, 100, 160}
	var props []string
	for i, p := range cssProps {
		if i%nshards == shard {
			props = append(props, p)
		}
	}
	var wg sync.WaitGroup
	sem := make(chan struct{}, runtime.NumCPU())
	evals := 0
	for _, prop := range props {
		wg.Add(1)
		sem <- struct{}{}
		go func(prop string) {
			defer wg.Done()
			defer func() { <-sem }()
			h := css.GetDefaultHandler(prop)
			var vocab []string
			for _, a := range cssTokens {
				if len(vocab) < 3 && !strings.ContainsAny(a, "\"'") && h(a) {
					vocab = append(vocab, a)
				}
			}
			// also a pair of distinct accepted tokens alternating
			for _, v := range vocab {
				for _, n := range sizes {
					for _, tail := range []string{" @", " " + v + "@", "", "  " + v + " @", "  " + v, " \t" + v + " @"} {
						val := strings.TrimSpace(rep(v+" ", n)) + tail
						c := &Case{Kind: "handler", Strs: []BStr{BStr(prop), BStr(val)}}
						res := timedCall(tokenBudget, func() string { h(val); return "" })
						mu.Lock()
						evals++
						mu.Unlock()
						if res.panicked != nil {
							hardFail(c, r, fmt.Sprintf("C14: default handler for %q panics on %s: %v", prop, q(trunc(val, 120)), res.panicked))
						}
						if res.timedOut {
							hardFail(c, r, fmt.Sprintf("C14: default handler for %q does not return within %v on the %d-byte value %s (n=%d repeated tokens)", prop, tokenBudget, len(val), q(trunc(val, 120)), n))
						}
						if tail == " @" {
							record("handler:"+prop+":"+v, n, len(val), res.elapsed)
						}
						if n >= 16 {
							r.NonTrivial("h\x00"+prop+"\x00"+val, func() any {
								return map[string]any{"family": "shorthand tokens", "property": prop, "n": n, "value": q(trunc(val, 100)), "ms": float64(res.elapsed.Microseconds()) / 1000}
							})
						}
					}
				}
			}
		}(prop)
	}
	wg.Wait()
	// ---- degenerate values for every handler: a handler must reject (or accept) them, never panic
	degenerate := []string{"", " ", "'", "\"", "''", "\"\"", "' '", "(", ")", "()", ",", ", ,", "a,", ",a", "/", " / ", "\\", "-", "+", ".", "#", "%", "!", "url(", "url()", "rgb(", "rgb()", "1 ", " 1", "1  2", "\t", "\n", "\x00", "\ufffd", "0/0", "a b c d e f g h i j k l", "'\"", "\"'", "-webkit-", "1e999", "99999999999999999999", "#ggg", "#", "calc(", "var(--x)", "initial initial", "inherit,", ",inherit"}
	for _, prop := range props {
		h := css.GetDefaultHandler(prop)
		for _, v := range degenerate {
			v := v
			c := &Case{Kind: "handler", Strs: []BStr{BStr(prop), BStr(v)}}
			res := timedCall(tokenBudget, func() string { h(v); return "" })
			evals++
			if res.panicked != nil {
				hardFail(c, r, fmt.Sprintf("C14: default handler for %q panics on %s: %v", prop, q(v), res.panicked))
			}
			if res.timedOut {
				hardFail(c, r, fmt.Sprintf("C14: default handler for %q does not return within %v on %s", prop, tokenBudget, q(v)))
			}
		}
	}
	r.ClassN("degenerate_handler_values", len(degenerate)*len(props))
	// the same through Policy.Sanitize for the shorthand properties (end to end, incl. douceur)
	if shard == 0 {
		p := everythingPolicy()
		for _, prop := range []string{"animation", "text-decoration", "font", "border", "background", "transition", "flex-flow", "grid-template-areas", "list-style", "outline", "columns", "box-shadow"} {
			h := css.GetDefaultHandler(prop)
			var v string
			for _, a := range cssTokens {
				if !strings.ContainsAny(a, "\"'") && h(a) {
					v = a
					break
				}
			}
			if v == "" {
				continue
			}
			// a short input cannot stall the sanitiser: a few kilobytes of one repeated token must
			// stay within the budget too (2000 tokens = 4 KB)
			for _, n := range append(append([]int{}, sizes...), 400, 1000, 2000) {
				in := `<p style="` + prop + `: ` + rep(v+" ", n) + `@">x</p>`
				c := &Case{Kind: "family", Input: BStr(in)}
				res := timedCall(tokenBudget, func() string { return p.Sanitize(in) })
				evals++
				if res.panicked != nil {
					hardFail(c, r, fmt.Sprintf("C14: Sanitize panics on %s: %v", q(trunc(in, 120)), res.panicked))
				}
				if res.timedOut {
					hardFail(c, r, fmt.Sprintf("C14: Sanitize does not return within %v on the %d-byte input %s", tokenBudget, len(in), q(trunc(in, 120))))
				}
				record("sanitize_style:"+prop, n, len(in), res.elapsed)
				r.NonTrivial("s\x00"+in, nil)
			}
		}
		// ---- shorthand values just under the component bound, with components that are expensive for
		// the sub-handlers (comma lists, function calls), four declarations in one attribute (2-10 KB)
		for _, prop := range []string{"font", "background", "transition", "animation", "grid", "border", "list-style", "flex"} {
			for _, piece := range []string{", ", ",,,,,,,, ", "rgb(1,1,1) ", "a,a,a,a ", "inherit,inherit,inherit,inherit ", "initial / ", "1px ", "a "} {
				decl := prop + ": " + rep(piece, 255) + "!; "
				in := `<p style="` + rep(decl, 4) + `">x</p>`
				c := &Case{Kind: "family", Input: BStr(in)}
				res := timedCall(tokenBudget, func() string { return p.Sanitize(in) })
				evals++
				if res.panicked != nil {
					hardFail(c, r, fmt.Sprintf("C14: Sanitize panics on %s: %v", q(trunc(in, 120)), res.panicked))
				}
				if res.timedOut {
					hardFail(c, r, fmt.Sprintf("C14: Sanitize does not return within %v on the %d-byte input %s", tokenBudget, len(in), q(trunc(in, 120))))
				}
				record("sanitize_style_under_bound:"+prop, 255, len(in), res.elapsed)
				r.NonTrivial("u\x00"+in, nil)
			}
		}
		// ---- comma/space separated CSS lists: every shorthand handler is (after the D4 repair)
		// quadratic to cubic in the number of components, which the property allows; sizes are kept
		// where that is ~1.5 s at most (n = 1000), so that only a change of complexity class trips the
		// 30 s budget
		for _, n := range []int{100, 300, 1000} {
			in := `<p style="font-family: ` + rep("arial, ", n) + `serif; background: ` + rep("red, ", n) + `blue; transition: ` + rep("width 1s, ", n) + `height 1s">x</p>`
			c := &Case{Kind: "family", Input: BStr(in)}
			res := timedCall(structBudget, func() string { return p.Sanitize(in) })
			evals++
			if res.panicked != nil {
				hardFail(c, r, fmt.Sprintf("C14: Sanitize panics on family css_comma_lists n=%d: %v", n, res.panicked))
			}
			if res.timedOut {
				hardFail(c, r, fmt.Sprintf("C14: Sanitize does not return within %v on family css_comma_lists n=%d (%d bytes)", structBudget, n, len(in)))
			}
			record("structural:css_comma_lists", n, len(in), res.elapsed)
			r.NonTrivial("f\x00css_comma_lists\x00"+itoa(n), nil)
		}
		// ---- runs of white space inside a shorthand value (one scanner token, n empty components for
		// the handler) and unterminated url( runs (the CSS scanner re-reads the rest of the value at
		// every url( : quadratic with a large constant, kept at sizes where that is well under a second)
		for _, fam := range []struct {
			name string
			mk   func(n int) string
			ns   []int
		}{
			{"style_space_run_in_shorthand", func(n int) string {
				return `<p style="font: a` + rep(" ", n) + `a; margin: 1` + rep(" ", n) + `1">x</p>`
			}, []int{1000, 100000, 1000000}},
			{"style_unterminated_url_run", func(n int) string { return `<p style="background: ` + rep("url(", n) + `">x</p>` }, []int{100, 500, 2000}},
		} {
			for _, n := range fam.ns {
				in := fam.mk(n)
				c := &Case{Kind: "family", Input: BStr(in)}
				res := timedCall(structBudget, func() string { return p.Sanitize(in) })
				evals++
				if res.panicked != nil {
					hardFail(c, r, fmt.Sprintf("C14: Sanitize panics on family %s n=%d: %v", fam.name, n, res.panicked))
				}
				if res.timedOut {
					hardFail(c, r, fmt.Sprintf("C14: Sanitize does not return within %v on family %s n=%d (%d bytes)", structBudget, fam.name, n, len(in)))
				}
				record("structural:"+fam.name, n, len(in), res.elapsed)
				r.NonTrivial("f\x00"+fam.name+"\x00"+itoa(n), nil)
			}
		}
		// ---- bounded-exhaustive tag sequences: every sequence of up to 5 (thorough 6) tags over an
		// element that is kept only with attributes (dropped bare), the same for <a>, a kept and an
		// unknown element, for element names with and without non-ASCII / quote / backslash characters
		// (the skip stacks and counters are keyed by names that are normalised in some places only)
		{
			maxLen := 5
			if tier == "thorough" {
				maxLen = 6
			}
			for _, name := range []string{"x-caf\u00e9", "my-\u00fc", "x-\"q", "font"} {
				spec := &Spec{Base: "New", Ops: []Op{{Kind: "AllowAttrs", Attrs: []string{"class"}, Scope: "els", Names: []string{name}, ValRe: -1},
					{Kind: "AllowAttrs", Attrs: []string{"href"}, Scope: "els", Names: []string{"a"}, ValRe: -1}, {Kind: "AllowElements", Names: []string{"b"}, ValRe: -1},
					{Kind: "AllowRelativeURLs", B: true, ValRe: -1}, {Kind: "AddSpaceWhenStrippingTag", B: true, ValRe: -1}}}
				pol := Build(spec, nil)
				alphabets := [][]string{
					{"<" + name + ">", "</" + name + ">", "<" + name + ` class="c">`, "<a>", "</a>", `<a href="x">`, "<b>", "</b>", "</q>", "<object>", "</object>"},
					// fewer letters, two tags longer
					{"<" + name + ">", "</" + name + ">", "<" + name + ` class="c">`, "<a>", "</a>", "</b>"},
				}
				for ai, alphabet := range alphabets {
					maxLen := maxLen + 2*ai
					idx := make([]int, maxLen)
					var batch []string
					flush := func() {
						if len(batch) == 0 {
							return
						}
						cur := ""
						b := batch
						batch = nil
						// one watchdog per batch of tiny inputs (a goroutine and a timer per input would cost
						// more than the calls themselves); cur names the input a panic or a stall belongs to
						res := timedCall(soupBudget, func() string {
							for _, in := range b {
								cur = in
								pol.Sanitize(in)
							}
							return ""
						})
						evals += len(b)
						if res.panicked != nil {
							hardFail(&Case{Kind: "soup", Spec: spec, Input: BStr(cur)}, r, fmt.Sprintf("C14: Sanitize panics on %s: %v", q(cur), res.panicked))
						}
						if res.timedOut {
							hardFail(&Case{Kind: "soup", Spec: spec, Input: BStr(cur)}, r, fmt.Sprintf("C14: Sanitize does not return within %v on (a batch of tag sequences at) %s", soupBudget, q(cur)))
						}
					}
					var rec func(pos int)
					rec = func(pos int) {
						if pos > 0 {
							var sb strings.Builder
							for _, i := range idx[:pos] {
								sb.WriteString(alphabet[i])
							}
							batch = append(batch, sb.String())
							if len(batch) >= 4000 {
								flush()
							}
						}
						if pos == maxLen {
							return
						}
						for i := range alphabet {
							idx[pos] = i
							rec(pos + 1)
						}
					}
					rec(0)
					flush()
				}
			}
			r.Class("exhaustive_tag_sequences")
		}
		// ---- token lists with every kind of separator: rel, sandbox and class values are scanned token by
		// token; a separator one scanner knows and another does not must not stop progress
		{
			spec := &Spec{Base: "New", Ops: []Op{{Kind: "AllowAttrs", Attrs: []string{"href", "rel", "target", "sandbox", "class", "src"}, ValRe: -1, Scope: "global"},
				{Kind: "AllowElements", Names: []string{"a", "area", "link", "iframe"}, ValRe: -1}, {Kind: "AllowStandardURLs", ValRe: -1},
				{Kind: "RequireNoReferrerOnLinks", B: true, ValRe: -1}, {Kind: "AddTargetBlankToFullyQualifiedLinks", B: true, ValRe: -1},
				{Kind: "RequireSandboxOnIFrame", Vals: []int{2, 10}, ValRe: -1}}}
			pol := Build(spec, nil)
			seps := []string{" ", "\t", "\n", "\f", "\r", "\v", "\u00a0", "\u0085", "\u2003", "\u3000", "\x00", "\f\f", " \f ", "\f "}
			for _, sep := range seps {
				for _, toks := range [][]string{{"author", "help"}, {"nofollow", "noopener"}, {"allow-forms", "allow-scripts"}, {"", "x"}, {"x", ""}} {
					v := toks[0] + sep + toks[1]
					in := `<a href="http://example.com/x" rel="` + escAttr(v, '"') + `" target="_blank">y</a><link href="/x" rel="` + escAttr(v, '"') + `"><iframe src="http://example.com/" sandbox="` + escAttr(v, '"') + `"></iframe>`
					c := &Case{Kind: "soup", Spec: spec, Input: BStr(in)}
					res := timedCall(soupBudget, func() string { return pol.Sanitize(in) })
					evals++
					if res.panicked != nil {
						hardFail(c, r, fmt.Sprintf("C14: Sanitize panics on the token list %s: %v", q(v), res.panicked))
					}
					if res.timedOut {
						hardFail(c, r, fmt.Sprintf("C14: Sanitize does not return within %v on the %d-byte input %s", soupBudget, len(in), q(in)))
					}
				}
			}
			r.ClassN("token_list_separators", len(seps)*5)
		}
		// ---- URL corners: every URL string of the pools at every src/href/cite position under
		// policies with and without a rewriter, with and without URL validation
		urlPolicies := []*Spec{
			{Base: "UGC", Ops: []Op{{Kind: "AllowAttrs", Attrs: []string{"src", "href", "cite"}, ValRe: -1, Scope: "global"}, {Kind: "AllowElementsMatching", ElRe: 4, ValRe: -1}, {Kind: "RewriteSrc", Fn: 0, ValRe: -1}}},
			{Base: "New", Ops: []Op{{Kind: "AllowAttrs", Attrs: []string{"src", "href", "cite"}, ValRe: -1, Scope: "global"}, {Kind: "AllowElementsMatching", ElRe: 4, ValRe: -1}, {Kind: "RewriteSrc", Fn: 2, ValRe: -1}}},
			{Base: "New", Ops: []Op{{Kind: "AllowAttrs", Attrs: []string{"src", "href", "cite"}, ValRe: -1, Scope: "global"}, {Kind: "AllowElementsMatching", ElRe: 4, ValRe: -1}, {Kind: "AllowRelativeURLs", B: true, ValRe: -1}, {Kind: "AllowURLSchemesMatching", ValRe: 4}, {Kind: "RewriteSrc", Fn: 1, ValRe: -1}, {Kind: "AddTargetBlankToFullyQualifiedLinks", B: true, ValRe: -1}}},
			{Base: "Zero", Ops: []Op{{Kind: "RewriteSrc", Fn: 0, ValRe: -1}, {Kind: "AllowDataURIImages", ValRe: -1}, {Kind: "AllowAttrs", Attrs: []string{"src", "href", "cite"}, ValRe: -1, Scope: "global"}, {Kind: "AllowElementsMatching", ElRe: 4, ValRe: -1}, {Kind: "AllowRelativeURLs", B: true, ValRe: -1}}},
		}
		var urls []string
		urls = append(urls, urlVals...)
		urls = append(urls, relPool...)
		for _, sc := range schemeSpell {
			for _, rest := range restPool {
				urls = append(urls, sc+":"+rest)
			}
		}
		for _, spec := range urlPolicies {
			pol := Build(spec, nil)
			for _, u := range urls {
				var sb strings.Builder
				for _, pos := range urlPositions {
					sb.WriteString("<" + pos[0] + " " + pos[1] + `="` + escAttr(u, '"') + `">x`)
				}
				in := sb.String()
				c := &Case{Kind: "soup", Spec: spec, Input: BStr(in)}
				res := timedCall(soupBudget, func() string { return pol.Sanitize(in) })
				evals++
				if res.panicked != nil {
					hardFail(c, r, fmt.Sprintf("C14: Sanitize panics on URL %s under %s: %v", q(u), spec.String(), res.panicked))
				}
				if res.timedOut {
					hardFail(c, r, fmt.Sprintf("C14: Sanitize does not return within %v on URL %s", soupBudget, q(u)))
				}
			}
		}
		r.ClassN("url_corner_cases", len(urls)*len(urlPolicies))
		// ---- structural families through the everything policy, n doubling
		ssizes := []int{100, 1000, 10000, 100000}
		if tier == "thorough" {
			ssizes = []int{100, 1000, 10000, 100000, 200000}
		}
		for _, n := range ssizes {
			fams := structuralFamilies(n)
			names := make([]string, 0, len(fams))
			for k := range fams {
				names = append(names, k)
			}
			sort.Strings(names)
			for _, name := range names {
				// the CSS parser (douceur) is quadratic on these two shapes (5 s at n = 100000); they are
				// run up to n = 10000 only, to keep >= 50x slack under the budget
				if n > 10000 && (name == "style_nested_parens" || name == "style_unterminated_quotes") {
					continue
				}
				in := fams[name]
				c := &Case{Kind: "family", Input: BStr(in)}
				res := timedCall(structBudget, func() string { return p.Sanitize(in) })
				evals++
				if res.panicked != nil {
					hardFail(c, r, fmt.Sprintf("C14: Sanitize panics on family %s n=%d: %v", name, n, res.panicked))
				}
				if res.timedOut {
					hardFail(c, r, fmt.Sprintf("C14: Sanitize does not return within %v on family %s n=%d (%d bytes)", structBudget, name, n, len(in)))
				}
				record("structural:"+name, n, len(in), res.elapsed)
				r.NonTrivial("f\x00"+name+"\x00"+itoa(n), func() any {
					return map[string]any{"family": name, "n": n, "bytes": len(in), "ms": float64(res.elapsed.Microseconds()) / 1000, "input_prefix": q(trunc(in, 80))}
				})
			}
		}
	}
	r.EvalN(evals)
	// keep the evidence readable: slowest 40 measurements plus all structural ones
	sort.Slice(timings, func(i, j int) bool { return timings[i].MS > timings[j].MS })
	var keep []famTiming
	for i, t := range timings {
		if i < 40 || strings.HasPrefix(t.Family, "structural:") || strings.HasPrefix(t.Family, "sanitize_style:") {
			keep = append(keep, t)
		}
	}
	r.SetExtra("family_timings_ms", keep)
	r.SetExtra("budgets", map[string]string{"soup_and_bytes_per_call": soupBudget.String(), "shorthand_token_families": tokenBudget.String(), "structural_families": structBudget.String()})
	return nil
}

func init() { register(&Prop{ID: "C14", Gen: genC14, Check: checkC14, Fixed: fixedC14}) }
