package props

import (
	"fmt"
	"strings"

	"golang.org/x/net/html"
	"golang.org/x/net/html/atom"
)

// Reference reading of HTML: x/net/html's tokenizer (context free) and its
// tree builder in a set of ordinary flow-content containers.

type tok struct {
	Type html.TokenType
	Name string // tag name (as the tokenizer reports it: ASCII lower case) or text/comment data
	Attr []html.Attribute
	Raw  string
}

func tokenize(s string) []tok {
	z := html.NewTokenizer(strings.NewReader(s))
	var out []tok
	for {
		tt := z.Next()
		if tt == html.ErrorToken {
			return out
		}
		raw := string(z.Raw())
		t := z.Token()
		if t.Type == html.SelfClosingTagToken && !solidusIsSelfClosing(raw) {
			// x/net reports every tag whose last byte before '>' is a solidus as self-closing; where
			// the solidus ends an unquoted attribute value (<object data=x/>) HTML has a start tag
			t.Type = html.StartTagToken
		}
		out = append(out, tok{Type: t.Type, Name: t.Data, Attr: t.Attr, Raw: raw})
	}
}

// solidusIsSelfClosing runs the tag-name and attribute states of the HTML tokenizer (HTML Standard
// 13.2.5.8 and 13.2.5.32-40) over the raw text of one start tag, as delimited by the reference
// tokenizer, and reports whether the tag is emitted from the self-closing start tag state.
func solidusIsSelfClosing(raw string) bool {
	const (
		tagName = iota
		beforeAttrName
		attrName
		afterAttrName
		beforeAttrValue
		valueDQ
		valueSQ
		valueUnquoted
		afterValueQuoted
		selfClosing
	)
	ws := func(c byte) bool { return c == ' ' || c == '\t' || c == '\n' || c == '\f' || c == '\r' }
	state := tagName
	for i := 1; i < len(raw); {
		c := raw[i]
		switch state {
		case tagName:
			switch {
			case ws(c):
				state = beforeAttrName
			case c == '/':
				state = selfClosing
			case c == '>':
				return false
			}
			i++
		case beforeAttrName:
			switch {
			case ws(c):
				i++
			case c == '/' || c == '>':
				state = afterAttrName // reconsume
			default:
				state = attrName // (a leading '=' is part of the name)
				i++
			}
		case attrName:
			switch {
			case ws(c) || c == '/' || c == '>':
				state = afterAttrName // reconsume
			case c == '=':
				state = beforeAttrValue
				i++
			default:
				i++
			}
		case afterAttrName:
			switch {
			case ws(c):
				i++
			case c == '/':
				state = selfClosing
				i++
			case c == '=':
				state = beforeAttrValue
				i++
			case c == '>':
				return false
			default:
				state = attrName
				i++
			}
		case beforeAttrValue:
			switch {
			case ws(c):
				i++
			case c == '"':
				state = valueDQ
				i++
			case c == '\'':
				state = valueSQ
				i++
			case c == '>':
				return false
			default:
				state = valueUnquoted // reconsume
			}
		case valueDQ:
			if c == '"' {
				state = afterValueQuoted
			}
			i++
		case valueSQ:
			if c == '\'' {
				state = afterValueQuoted
			}
			i++
		case valueUnquoted:
			switch {
			case ws(c):
				state = beforeAttrName
				i++
			case c == '>':
				return false
			default:
				i++ // a solidus is an ordinary character of the value
			}
		case afterValueQuoted:
			switch {
			case ws(c):
				state = beforeAttrName
				i++
			case c == '/':
				state = selfClosing
				i++
			case c == '>':
				return false
			default:
				state = beforeAttrName // reconsume
			}
		case selfClosing:
			if c == '>' {
				return true
			}
			state = beforeAttrName // reconsume
		}
	}
	return false
}

func isTag(t tok) bool {
	return t.Type == html.StartTagToken || t.Type == html.EndTagToken || t.Type == html.SelfClosingTagToken
}

func isOpenTag(t tok) bool {
	return t.Type == html.StartTagToken || t.Type == html.SelfClosingTagToken
}

// nodes the tree builder creates without a corresponding tag in the byte stream
var synth = map[string]bool{"html": true, "head": true, "body": true, "tbody": true, "tr": true, "colgroup": true}

var contexts = []string{"body", "div", "p", "td", "li", "span", "blockquote", "section", "pre", "ul", "h1", "a", "table", "select"}

func atomOf(s string) atom.Atom { return atom.Lookup([]byte(s)) }

func walk(n *html.Node, f func(*html.Node)) {
	f(n)
	for c := n.FirstChild; c != nil; c = c.NextSibling {
		walk(c, f)
	}
}

// parseIn parses s as the content of a <ctx> element.
func parseIn(s, ctx string, scripting bool) ([]*html.Node, error) {
	cn := &html.Node{Type: html.ElementNode, Data: ctx, DataAtom: atomOf(ctx)}
	return html.ParseFragmentWithOptions(strings.NewReader(s), cn, html.ParseOptionEnableScripting(scripting))
}

// forEachDOM calls f for every node of every tree built from s in every container
// context, scripting on and off. f returns an error to stop.
func forEachDOM(s string, f func(ctx string, scripting bool, n *html.Node) error) error {
	for _, ctx := range contexts {
		for _, scripting := range []bool{true, false} {
			nodes, err := parseIn(s, ctx, scripting)
			if err != nil {
				return fmt.Errorf("reference parser failed in <%s>: %v", ctx, err)
			}
			var bad error
			for _, n := range nodes {
				walk(n, func(x *html.Node) {
					if bad == nil {
						bad = f(ctx, scripting, x)
					}
				})
				if bad != nil {
					return bad
				}
			}
		}
	}
	return nil
}

var voidEls = map[string]bool{"area": true, "base": true, "br": true, "col": true, "embed": true, "hr": true, "img": true, "image": true, "input": true, "link": true,
	"meta": true, "param": true, "source": true, "track": true, "wbr": true, "frame": true, "basefont": true, "bgsound": true, "keygen": true}

// elements whose content the tokenizer reads as raw text / RCDATA
var rawTextEls = map[string]bool{"iframe": true, "noembed": true, "noframes": true, "noscript": true, "xmp": true, "textarea": true, "title": true,
	"script": true, "style": true, "plaintext": true}

// balanced reports whether every non-void start tag is closed by a matching end
// tag in proper nesting (reference tokenisation).
func balanced(s string) error {
	var st []string
	for _, t := range tokenize(s) {
		switch t.Type {
		case html.StartTagToken:
			if !voidEls[t.Name] {
				st = append(st, t.Name)
			}
		case html.EndTagToken:
			if voidEls[t.Name] {
				// the end tag of a void element neither opens nor closes anything (C09's premise
				// and conclusion speak of non-void elements); what happens to it is checked apart
				continue
			}
			if len(st) == 0 || st[len(st)-1] != t.Name {
				return fmt.Errorf("end tag </%s> with open elements %v", t.Name, st)
			}
			st = st[:len(st)-1]
		}
	}
	if len(st) != 0 {
		return fmt.Errorf("unclosed %v", st)
	}
	return nil
}

func hasTagNamed(toks []tok, names map[string]bool) bool {
	for _, t := range toks {
		if isTag(t) && names[t.Name] {
			return true
		}
	}
	return false
}

func firstAttr(attrs []html.Attribute, key string) (string, bool) {
	for _, a := range attrs {
		if a.Key == key && a.Namespace == "" {
			return a.Val, true
		}
	}
	return "", false
}

func escAttr(v string, quote byte) string {
	v = strings.ReplaceAll(v, "&", "&amp;")
	if quote == '"' {
		return strings.ReplaceAll(v, `"`, "&quot;")
	}
	return strings.ReplaceAll(v, `'`, "&#39;")
}
