package props

import (
	"golang.org/x/net/html"
	"reflect"
	"testing"
)

// Unit tests of the independent CSS reader against examples from CSS Syntax Level 3
// (consume an escaped code point, consume a declaration list) before it is trusted as an oracle.

func TestCSSDecodeExamples(t *testing.T) {
	cases := map[string]string{
		`\26 B`:      "&B", // the spec's own example: "\26 B" is "&B"
		`\000026B`:   "&B",
		`\26B`:       "\u026b",
		`\72 ed`:     "red",
		`\72\65\64`:  "red",
		`re\64`:      "red",
		`\110000 x`:  "\ufffdx", // above U+10FFFF
		`\0 x`:       "\ufffdx", // NUL
		`\d800 x`:    "\ufffdx", // surrogate
		`\10ffff`:    "\U0010ffff",
		`\z`:         "z",
		`\;`:         ";",
		`a\\b`:       `a\b`,
		`\5c 62`:     `\62`, // a decoded backslash does not start a new escape
		`\20 a`:      " a",
		"\\41\tb":    "Ab", // any single whitespace terminates the escape
		"\\41\r\nb":  "Ab",
		`plain`:      "plain",
		"trailing\\": "trailing\ufffd",
		`\1F600`:     "\U0001F600",
		`\00000041`:  "\ufffd41", // at most six digits are consumed (000000 = NUL -> U+FFFD)
	}
	for in, want := range cases {
		if got := cssDecode(in); got != want {
			t.Errorf("cssDecode(%q) = %q, want %q", in, got, want)
		}
	}
}

func TestParseDeclsExamples(t *testing.T) {
	type d = decl
	cases := []struct {
		in   string
		want []decl
	}{
		{`color: red`, []d{{"color", "red", false}}},
		{`color:red;width:10px;`, []d{{"color", "red", false}, {"width", "10px", false}}},
		{`background: url(a;b); x: "a;b"; y: 'c:d'`, []d{{"background", "url(a;b)", false}, {"x", `"a;b"`, false}, {"y", `'c:d'`, false}}},
		{`color: red !important; x: y ! IMPORTANT`, []d{{"color", "red", true}, {"x", "y", true}}},
		{`/* c */ color /* d */ : red /* ; */; z: 1`, []d{{"color", "red /* ; */", false}, {"z", "1", false}}},
		{`f: g(a;b) h; k: [a;b]`, []d{{"f", "g(a;b) h", false}, {"k", "[a;b]", false}}},
		{`;;color:red;;`, []d{{"color", "red", false}}},
		{`junk; color: red; :x; =`, []d{{"color", "red", false}}},
		{`a: "unterminated; b: c`, []d{{"a", `"unterminated; b: c`, false}}},
		{`COLOR: RED; -webkit-x: 1`, []d{{"COLOR", "RED", false}, {"-webkit-x", "1", false}}},
		{`a: \;; b: c`, []d{{"a", `\;`, false}, {"b", "c", false}}},
	}
	for _, c := range cases {
		if got := parseDecls(c.in); !reflect.DeepEqual(got, c.want) {
			t.Errorf("parseDecls(%q) = %#v, want %#v", c.in, got, c.want)
		}
	}
}

func TestSchemeOfExamples(t *testing.T) {
	cases := map[string]string{
		"http://a/":           "http",
		"JaVaScRiPt:alert(1)": "javascript",
		" \x01javascript:x":   "javascript", // leading C0 control or space stripped
		"java\tscript:x":      "javascript", // tab, LF, CR removed anywhere
		"java\nscr\ript:x":    "javascript",
		"//host/x":            "",
		"/a:b":                "",
		"a/b:c":               "",
		"1http:x":             "",
		"x-app+1.2:y":         "x-app+1.2",
		":x":                  "",
		"\u00a0javascript:x":  "", // NBSP is not stripped by a browser: this is a relative reference
		"mailto:a@b":          "mailto",
		"data:text/html,x":    "data",
		"":                    "",
	}
	for in, want := range cases {
		got, abs := schemeOf(in)
		if got != want || abs != (want != "") {
			t.Errorf("schemeOf(%q) = %q,%v want %q", in, got, abs, want)
		}
	}
	auth := map[string]bool{"http://a/": true, "//a": true, "http:/a": true, "http:a": true, "https:\\\\a": true, "///a": true, "/\\a/": true, "\\\\a": true, "\\a": false, "///": false, "http:": false, "x-app:/a": false, "x-app://a/": true, "mailto:/a": false, "file:\\\\h\\x": true, "file:///x": false, "file://h/x": true, "file:/x": false, "/x": false, "http://user@/p": false, "http://[::1]/": true, "http://:80/": false, "mailto:a@b": false, "https://h:8080/x": true, " //a/": true, "/\t/a": true, " /x": false, "\n//a ": true}
	for in, want := range auth {
		if got := hasAuthority(in); got != want {
			t.Errorf("hasAuthority(%q) = %v, want %v", in, got, want)
		}
	}
}

func TestSolidusIsSelfClosing(t *testing.T) {
	for in, want := range map[string]bool{"<br/>": true, "<br />": true, "<a b/>": true, "<a b=c/>": false, "<a b=c />": true, `<a b="c/"/>`: true, `<a b="c"/>`: true, "<a b=/>": false, "<a b='x'/>": true,
		"<a b=c//>": false, "<a/b/>": true, "<a b = c/>": false, "<a b= />": false, `<a b="x"c=d/>`: false, `<a b=c"/>`: false, "<a ==/>": false, "<a =/>": true, "<a/ >": false, "<a b>": false, "<object data=x/>": false, `<a b="c" / >`: false} {
		if got := solidusIsSelfClosing(in); got != want {
			t.Errorf("solidusIsSelfClosing(%q) = %v, want %v", in, got, want)
		}
	}
	tk := tokenize("<object data=x/>s</object><img src=/a/ /><b/>")
	if len(tk) != 5 || tk[0].Type != html.StartTagToken || tk[3].Type != html.SelfClosingTagToken || tk[4].Type != html.SelfClosingTagToken {
		t.Errorf("tokenize: %+v", tk)
	}
}

func TestStdDecodeText(t *testing.T) {
	for in, want := range map[string]string{"a&#9 b": "a\t b", "&#x;": "&#x;", "&#;": "&#;", "&#x100000041;": "\uFFFD", "&#4294967361;": "\uFFFD", "&#0x": "\uFFFDx", "&#65;&#x42": "AB",
		"&#x80;": "\u20ac", "&#xD800;": "\uFFFD", "&amp;&lt;b&gt;": "&<b>", "&notit;": "\u00acit;", "a & b": "a & b", "&#13;": "\r", "&#1234567;": "\uFFFD"} {
		if got := stdDecodeText(in); got != want {
			t.Errorf("stdDecodeText(%q) = %q, want %q", in, got, want)
		}
	}
}
