package props

import (
	"strings"
	"unicode/utf8"
)

// --- minimal CSS Syntax Level 3 reader for style attributes ---

type decl struct {
	Prop, Value string
	Important   bool
}

func isHex(c byte) bool {
	return c >= '0' && c <= '9' || c >= 'a' && c <= 'f' || c >= 'A' && c <= 'F'
}
func isWS(c byte) bool { return c == ' ' || c == '\t' || c == '\n' || c == '\r' || c == '\f' }

// skipEscape: s[i]=='\\'; returns index after the escape
func skipEscape(s string, i int) int {
	i++
	if i >= len(s) {
		return i
	}
	if isHex(s[i]) {
		n := 0
		for i < len(s) && n < 6 && isHex(s[i]) {
			i++
			n++
		}
		if i < len(s) && isWS(s[i]) {
			if s[i] == '\r' && i+1 < len(s) && s[i+1] == '\n' {
				i++
			}
			i++
		}
		return i
	}
	_, sz := utf8.DecodeRuneInString(s[i:])
	return i + sz
}

// consumeComponent consumes one component value starting at i, returns next index
func consumeComponent(s string, i int) int {
	c := s[i]
	switch {
	case c == '/' && i+1 < len(s) && s[i+1] == '*':
		j := strings.Index(s[i+2:], "*/")
		if j < 0 {
			return len(s)
		}
		return i + 2 + j + 2
	case c == '"' || c == '\'':
		j := i + 1
		for j < len(s) {
			switch {
			case s[j] == c:
				return j + 1
			case s[j] == '\n' || s[j] == '\r' || s[j] == '\f':
				return j // bad-string, newline not consumed
			case s[j] == '\\':
				if j+1 < len(s) && (s[j+1] == '\n' || s[j+1] == '\f') {
					j += 2
				} else if j+1 < len(s) && s[j+1] == '\r' {
					j += 2
					if j < len(s) && s[j] == '\n' {
						j++
					}
				} else {
					j = skipEscape(s, j)
				}
			default:
				j++
			}
		}
		return j
	case c == '\\':
		if i+1 < len(s) && (s[i+1] == '\n' || s[i+1] == '\r' || s[i+1] == '\f') {
			return i + 1
		}
		return skipEscape(s, i)
	case c == '(' || c == '[' || c == '{':
		closer := map[byte]byte{'(': ')', '[': ']', '{': '}'}[c]
		// url( special case handled by caller via ident scan; here generic block
		j := i + 1
		for j < len(s) {
			if s[j] == closer {
				return j + 1
			}
			j = consumeComponent(s, j)
		}
		return j
	}
	// ident-ish run: could be url(
	if (c|0x20) == 'u' && len(s) >= i+4 && strings.EqualFold(s[i:i+4], "url(") {
		j := i + 4
		for j < len(s) && isWS(s[j]) {
			j++
		}
		if j < len(s) && (s[j] == '"' || s[j] == '\'') {
			// function token with string argument
			k := i + 3
			return consumeComponent(s, k) // the '(' block
		}
		// unquoted url token
		for j < len(s) {
			switch {
			case s[j] == ')':
				return j + 1
			case s[j] == '\\':
				j = skipEscape(s, j)
			default:
				j++
			}
		}
		return j
	}
	return i + 1
}

func parseDecls(s string) []decl {
	var out []decl
	i := 0
	for i < len(s) {
		// skip ws and ;
		for i < len(s) && (isWS(s[i]) || s[i] == ';') {
			i++
		}
		if i >= len(s) {
			break
		}
		start := i
		// consume until top-level ;
		for i < len(s) && s[i] != ';' {
			i = consumeComponent(s, i)
		}
		seg := s[start:i]
		// strip comments at top-level for name detection
		d, ok := splitDecl(seg)
		if ok {
			out = append(out, d)
		}
	}
	return out
}

func splitDecl(seg string) (decl, bool) {
	// find first top-level ':'
	i := 0
	// skip leading comments / ws
	for i < len(seg) {
		if isWS(seg[i]) {
			i++
		} else if strings.HasPrefix(seg[i:], "/*") {
			i = consumeComponent(seg, i)
		} else {
			break
		}
	}
	nameStart := i
	for i < len(seg) {
		c := seg[i]
		if c == ':' {
			break
		}
		if c == '\\' {
			i = skipEscape(seg, i)
			continue
		}
		if c >= 0x80 || c == '-' || c == '_' || c >= '0' && c <= '9' || (c|0x20) >= 'a' && (c|0x20) <= 'z' {
			i++
			continue
		}
		break
	}
	name := seg[nameStart:i]
	for i < len(seg) && (isWS(seg[i]) || strings.HasPrefix(seg[i:], "/*")) {
		if isWS(seg[i]) {
			i++
		} else {
			i = consumeComponent(seg, i)
		}
	}
	if name == "" || i >= len(seg) || seg[i] != ':' {
		return decl{}, false
	}
	val := strings.TrimSpace(seg[i+1:])
	d := decl{Prop: name, Value: val}
	l := strings.ToLower(val)
	if k := strings.LastIndex(l, "!"); k >= 0 && strings.TrimSpace(l[k+1:]) == "important" {
		d.Important = true
		d.Value = strings.TrimSpace(val[:k])
	}
	return d, true
}

func cssDecode(s string) string {
	var sb strings.Builder
	for i := 0; i < len(s); {
		if s[i] != '\\' {
			sb.WriteByte(s[i])
			i++
			continue
		}
		if i+1 >= len(s) {
			sb.WriteRune(0xFFFD)
			i++
			continue
		}
		if isHex(s[i+1]) {
			j, n, v := i+1, 0, 0
			for j < len(s) && n < 6 && isHex(s[j]) {
				c := s[j]
				switch {
				case c <= '9':
					v = v*16 + int(c-'0')
				case c >= 'a':
					v = v*16 + int(c-'a'+10)
				default:
					v = v*16 + int(c-'A'+10)
				}
				j++
				n++
			}
			if j < len(s) && isWS(s[j]) {
				if s[j] == '\r' && j+1 < len(s) && s[j+1] == '\n' {
					j++
				}
				j++
			}
			if v == 0 || v > 0x10FFFF || (v >= 0xD800 && v <= 0xDFFF) {
				v = 0xFFFD
			}
			sb.WriteRune(rune(v))
			i = j
			continue
		}
		if s[i+1] == '\n' || s[i+1] == '\r' || s[i+1] == '\f' {
			// not a valid escape outside strings: keep the backslash
			sb.WriteByte('\\')
			i++
			continue
		}
		r, sz := utf8.DecodeRuneInString(s[i+1:])
		sb.WriteRune(r)
		i += 1 + sz
	}
	return sb.String()
}
