package props

import (
	"regexp"
	"sort"
	"strings"

	douceur "github.com/aymerick/douceur/parser"
	"pgregory.net/rapid"
)

// C10 — inline style is filtered declaration by declaration against the CSS allowlist.

var vendorPrefixes = []string{"-webkit-", "-moz-", "-ms-", "-o-", "mso-", "-xv-", "-atsc-", "-wap-", "-khtml-", "prince-", "-ah-", "-hp-", "-ro-", "-rim-", "-tc-"}

var styleHosts = []string{"p", "span", "my-x", "div", "h1"}

var c10Kinds = []string{"AllowStyles", "AllowStyles", "AllowStyles", "AllowStyles", "AllowStyles", "AllowStyles", "AllowStyles", "AllowStyles", "AllowElementsMatching", "AllowAttrs", "AllowElements",
	"AllowStyling", "AllowStandardAttributes", "AddSpaceWhenStrippingTag"}

func genC10Spec(t *rapid.T) *Spec {
	pre := []Op{
		{Kind: "AllowAttrs", Attrs: []string{"id"}, ValRe: -1, Scope: "els", Names: styleHosts},
		{Kind: "AllowAttrs", Attrs: []string{"id"}, ValRe: -1, Scope: "elre", ElRe: 0},
	}
	switch rapid.IntRange(0, 3).Draw(t, "styleAttr") {
	case 0:
		pre = append(pre, Op{Kind: "AllowAttrs", Attrs: []string{"style"}, ValRe: -1, Scope: "global"})
	case 1:
		pre = append(pre, Op{Kind: "AllowAttrs", Attrs: []string{"style"}, ValRe: -1, Scope: "els", Names: styleHosts})
	case 2:
		// style not allowed as an attribute at all: it is still governed by style rules where they apply
	default:
		pre = append(pre, Op{Kind: "AllowAttrs", Attrs: []string{"style"}, ValRe: 5, Scope: "els", Names: []string{"p", "span"}})
	}
	// style ops target the host elements so that rules actually apply
	return genSpec(t, &SpecOpts{Bases: []string{"New"}, Kinds: c10Kinds, MinOps: 1, MaxOps: 8, Pre: pre, ElPool: []string{"p", "span", "my-x", "div", "h1", "b"}})
}

func genC10(t *rapid.T) *Case {
	spec := genC10Spec(t)
	m := BuildModel(spec)
	props := append(append([]string{}, cssPropSpell...), m.styleVocabulary()...)
	props = append(props, m.styleVocabulary()...)
	for _, p := range m.styleVocabulary() {
		props = append(props, strings.ToUpper(p), "-webkit-"+p, "-moz-"+p)
	}
	var sb strings.Builder
	n := rapid.IntRange(1, 3).Draw(t, "nel")
	for i := 0; i < n; i++ {
		el := rapid.SampledFrom(styleHosts).Draw(t, "host")
		st := genStyleFrom(t, props)
		sb.WriteString("<" + el + ` id="i" style="` + escAttr(st, '"') + `">t</` + el + ">")
	}
	return &Case{Spec: spec, Input: BStr(sb.String()), Kind: "hostile"}
}

func hasVendorPrefix(prop string) bool {
	for _, pf := range vendorPrefixes {
		if strings.HasPrefix(prop, pf) {
			return true
		}
	}
	return false
}

// plainStyleVocabulary: the policy's style properties that do not themselves start with a vendor
// prefix. A rule registered under a prefixed name ("mso-width") can never match, because the
// sanitiser strips the prefix from the declared property before the lookup; whether that is what
// the caller meant is outside the properties, so conforming / clean documents do not use them.
func plainStyleVocabulary(m *Model) []string {
	var out []string
	for _, p := range m.styleVocabulary() {
		if !hasVendorPrefix(p) {
			out = append(out, p)
		}
	}
	return out
}

// propCandidates: the property name with any number of the documented vendor prefixes removed.
func propCandidates(prop string) []string {
	cands := []string{prop}
	for k := 0; k < len(cands) && k < 64; k++ {
		for _, pf := range vendorPrefixes {
			if strings.HasPrefix(cands[k], pf) {
				cands = append(cands, strings.TrimPrefix(cands[k], pf))
			}
		}
	}
	return cands
}

// declAcceptedBy: is the declaration accepted by any of the rules (browser reading of the value)?
func declAccepted(m *Model, el string, d decl) bool {
	prop := asciiLower(cssDecode(d.Prop))
	// CSS keywords, names and units are ASCII case-insensitive: a browser does not fold U+212A (Kelvin
	// sign) into k or U+0130 into i
	lv := asciiLower(strings.TrimSpace(d.Value))
	v1 := cssDecode(lv)
	v2 := asciiLower(v1)
	for _, c := range propCandidates(prop) {
		for _, r := range m.StyleRulesFor(el, c) {
			if r.accepts(v1) || r.accepts(v2) {
				return true
			}
		}
	}
	return false
}

// styleStrictReplay: set while the witness of the known finding is replayed, so that the class
// predicate below cannot hide it.
var styleStrictReplay bool

// cssParserDivergence is the class predicate of known finding D37: the CSS parser the sanitiser
// uses (douceur / gorilla css) reads the style as a list of declarations each of which the policy
// accepts, while a browser (cssx.go) reads a different list — the parser takes URL(...), url( with
// white space or a quote inside, for a function and so finds comments and strings, and with them
// ';' and ':', where a browser's url / bad-url token has long ended.
func cssParserDivergence(m *Model, el, style string) bool {
	if hasSyntaxEscape(style) {
		// not this finding: the parser and a browser disagree because a hex escape was decoded into a
		// bracket, quote, backslash or semicolon BEFORE the value was judged (a browser never reads an
		// escaped character as syntax) - that is the sanitiser's own doing and repairable (D63)
		return false
	}
	s := strings.TrimRight(style, " \t\n\f\r")
	if s != "" && s[len(s)-1] != ';' {
		s += ";"
	}
	pd, err := douceur.ParseDeclarations(s)
	if err != nil {
		return false
	}
	bd := parseDecls(style)
	same := len(pd) == len(bd)
	for i := 0; same && i < len(pd); i++ {
		if pd[i].Property != bd[i].Prop || strings.TrimSpace(pd[i].Value) != strings.TrimSpace(bd[i].Value) {
			same = false
		}
	}
	if same {
		return false
	}
	for _, d := range pd {
		if !declAccepted(m, el, decl{Prop: d.Property, Value: d.Value}) {
			return false
		}
	}
	return true
}

// hasSyntaxEscape: does the style hold, outside a quoted string, an escape (backslash + 1-6 hex
// digits, or backslash + any other character) that stands for one of ( ) [ ] { } " ' \ ; ?
func hasSyntaxEscape(style string) bool {
	var inString byte
	for i := 0; i < len(style); i++ {
		c := style[i]
		if c != '\\' {
			switch {
			case inString == 0 && (c == '"' || c == '\''):
				inString = c
			case c == inString:
				inString = 0
			}
			continue
		}
		if i+1 >= len(style) {
			break
		}
		j, v := i+1, 0
		for j < len(style) && j < i+7 {
			d := style[j]
			switch {
			case d >= '0' && d <= '9':
				v = v*16 + int(d-'0')
			case d >= 'a' && d <= 'f':
				v = v*16 + int(d-'a') + 10
			case d >= 'A' && d <= 'F':
				v = v*16 + int(d-'A') + 10
			default:
				goto done
			}
			j++
		}
	done:
		if j == i+1 {
			v = int(style[i+1]) // backslash + another character stands for that character
			j = i + 2
		}
		if inString == 0 {
			switch v {
			case '(', ')', '[', ']', '{', '}', '"', '\'', '\\', ';':
				return true
			}
		}
		i = j - 1
	}
	return false
}

func checkStyleSafety(m *Model, out string, outToks []tok, r *Rec) (kept int, err error) {
	for _, tk := range outToks {
		if !isOpenTag(tk) || !m.HasStyleRules(tk.Name) {
			continue
		}
		for _, a := range tk.Attr {
			if a.Key != "style" {
				continue
			}
			if strings.TrimSpace(a.Val) == "" {
				return kept, violation(out, "C10: empty style attribute kept on <%s> although style rules apply", tk.Name)
			}
			decls := parseDecls(a.Val)
			if len(decls) == 0 {
				return kept, violation(out, "C10: style=%q on <%s> holds no declaration a CSS parser can read", a.Val, tk.Name)
			}
			for _, d := range decls {
				if !declAccepted(m, tk.Name, d) {
					if !styleStrictReplay && cssParserDivergence(m, tk.Name, a.Val) && knownClassEnabled("C10", "css_parser_reads_url_or_comment_differently_from_browser") {
						if r != nil {
							r.Excluded("css_parser_reads_url_or_comment_differently_from_browser")
						}
						break
					}
					return kept, violation(out, "C10: declaration %q: %q on <%s> (value as a browser reads it: %q) is not accepted by any rule registered for that property on the element, a matching pattern or globally",
						d.Prop, d.Value, tk.Name, cssDecode(asciiLower(strings.TrimSpace(d.Value))))
				}
				kept++
			}
		}
	}
	return kept, nil
}

func checkC10(c *Case, r *Rec) error {
	if c.Kind == "clean" {
		return checkC10Clean(c, r)
	}
	m := BuildModel(c.Spec)
	in := string(c.Input)
	out, _ := sanitizeSpec(c.Spec, in)
	inToks, outToks := tokenize(in), tokenize(out)
	styleStrictReplay = c.Kind == "strict-replay"
	kept, err := checkStyleSafety(m, out, outToks, r)
	styleStrictReplay = false
	if err != nil {
		return err
	}
	// classification from the reference reading of the input
	inDecls, fancy := 0, false
	for _, tk := range inToks {
		if !isOpenTag(tk) {
			continue
		}
		if v, ok := firstAttr(tk.Attr, "style"); ok {
			ds := parseDecls(v)
			inDecls += len(ds)
			for _, d := range ds {
				if strings.Contains(d.Value, "\\") || strings.Contains(d.Prop, "\\") || d.Prop != asciiLower(d.Prop) || len(propCandidates(asciiLower(d.Prop))) > 1 {
					fancy = true
				}
			}
		}
	}
	if kept > 0 {
		r.Class("style_declaration_kept")
	}
	if fancy {
		r.Class("input_has_escape_prefix_or_uppercase")
	}
	if len(m.reStyles) > 0 {
		r.Class("policy_has_pattern_scope_style_rule")
	}
	if len(m.globStyles) > 0 {
		r.Class("policy_has_global_style_rule")
	}
	if len(m.elStyles) > 0 {
		r.Class("policy_has_element_style_rule")
	}
	if inDecls >= 2 && kept >= 1 && kept < inDecls && fancy {
		r.NonTrivial(c.Spec.String()+"\x00"+in, func() any {
			return map[string]any{"policy": c.Spec.String(), "input": q(trunc(in, 300)), "output": q(trunc(out, 300))}
		})
	}
	return nil
}

// ---------------------------------------------------------------------------------------------
// completeness half: clean styles

// values of "cleanly parseable" styles: no escapes, quotes, brackets, comments, ; or :
var cleanCSSValue = regexp.MustCompile(`^[a-zA-Z0-9#%.,-][a-zA-Z0-9 #%.,-]*$`)

func ruleSamples(r styleRule, good bool) []string {
	switch r.kind {
	case "re":
		if good {
			return styleRePool[r.ri].good
		}
		return styleRePool[r.ri].bad
	case "enum":
		if good {
			return r.enum
		}
		return []string{"zzz", "nope"}
	case "fn":
		if good {
			return []string{"red", "blue", "1px", "alpha beta", "10px", "teal", "plum"}
		}
		return []string{"zzz()", "@x"}
	default:
		if good {
			return []string{"red", "#fff", "10px", "left", "underline", "arial", "1px solid red", "0.5", "none", "2em", "url(http://x.y/z.png)", "1s", "'foo  bar'", "'times new roman'", "'a   b'"}
		}
		return []string{"expression(alert(1))", "url(javascript:alert(1))", "@import"}
	}
}

func genC10Clean(t *rapid.T) *Case {
	spec := genC10Spec(t)
	m := BuildModel(spec)
	vocab := plainStyleVocabulary(m)
	if len(vocab) == 0 {
		vocab = []string{"color"}
	}
	var sb strings.Builder
	n := rapid.IntRange(1, 3).Draw(t, "nel")
	for i := 0; i < n; i++ {
		el := rapid.SampledFrom(styleHosts).Draw(t, "host")
		nd := rapid.IntRange(1, 4).Draw(t, "nd")
		var ds []string
		for j := 0; j < nd; j++ {
			prop := rapid.SampledFrom(vocab).Draw(t, "cprop")
			if rapid.IntRange(0, 5).Draw(t, "other") == 0 {
				prop = rapid.SampledFrom([]string{"color", "bogus", "width", "margin"}).Draw(t, "oprop")
			}
			var val string
			rules := m.StyleRulesFor(el, prop)
			if len(rules) > 0 && rapid.IntRange(0, 3).Draw(t, "fromRule") != 0 {
				ru := rapid.SampledFrom(rules).Draw(t, "rule")
				val = rapid.SampledFrom(ruleSamples(ru, rapid.IntRange(0, 3).Draw(t, "good") != 0)).Draw(t, "sample")
			} else {
				val = rapid.SampledFrom([]string{"red", "10px", "left", "zzz", "1"}).Draw(t, "anyv")
			}
			if !cleanCSSValue.MatchString(val) {
				val = "zzz"
			}
			switch rapid.IntRange(0, 5).Draw(t, "spell") {
			case 0:
				prop = strings.ToUpper(prop)
			case 1:
				prop = rapid.SampledFrom(vendorPrefixes).Draw(t, "pfx") + prop
			}
			ds = append(ds, prop+rapid.SampledFrom([]string{":", ": "}).Draw(t, "colon")+val)
		}
		// styles as authors and mail clients write them: one declaration per line, white space of any
		// kind around the separators and at both ends
		st := strings.Join(ds, rapid.SampledFrom([]string{";", "; ", ";", "; ", ";\n", ";\n  ", " ; ", ";\t"}).Draw(t, "semi"))
		st += rapid.SampledFrom([]string{"", ";", "", ";", "; ", ";\n", ";\t", "\n", " \n ", ";\r\n", "\t", ";\f"}).Draw(t, "trail")
		st = rapid.SampledFrom([]string{"", "", "", " ", "\n", "\n\t"}).Draw(t, "lead") + st
		sb.WriteString("<" + el + ` id="i" style="` + escAttr(st, '"') + `">t</` + el + ">")
	}
	return &Case{Spec: spec, Input: BStr(sb.String()), Kind: "clean"}
}

// mustKeep: documented completeness reading — an element's own rules shadow pattern rules,
// global rules always apply.
func mustKeepRules(m *Model, el, prop string) []styleRule {
	var out []styleRule
	if len(m.elStyles[el]) > 0 {
		out = append(out, m.elStyles[el][prop]...)
	} else {
		res := make([]string, 0)
		byName := map[string][]styleRule{}
		for re, ps := range m.reStyles {
			if re.MatchString(el) {
				res = append(res, re.String())
				byName[re.String()] = append(byName[re.String()], ps[prop]...)
			}
		}
		sort.Strings(res)
		for _, k := range res {
			out = append(out, byName[k]...)
		}
	}
	return append(out, m.globStyles[prop]...)
}

func checkC10Clean(c *Case, r *Rec) error {
	m := BuildModel(c.Spec)
	in := string(c.Input)
	out, _ := sanitizeSpec(c.Spec, in)
	inToks, outToks := tokenize(in), tokenize(out)
	if _, err := checkStyleSafety(m, out, outToks, r); err != nil {
		return err
	}
	// pair up the host elements (all survive: id is allowed on them)
	var inStarts, outStarts []tok
	for _, tk := range inToks {
		if isOpenTag(tk) {
			inStarts = append(inStarts, tk)
		}
	}
	for _, tk := range outToks {
		if isOpenTag(tk) {
			outStarts = append(outStarts, tk)
		}
	}
	if len(inStarts) != len(outStarts) {
		return violation(out, "C10(clean): %d elements in, %d out although every host element carries an allowed id", len(inStarts), len(outStarts))
	}
	nt := false
	for i, it := range inStarts {
		ot := outStarts[i]
		if it.Name != ot.Name {
			return violation(out, "C10(clean): element %d is <%s> in the input and <%s> in the output", i, it.Name, ot.Name)
		}
		if !m.HasStyleRules(it.Name) {
			continue
		}
		iv, _ := firstAttr(it.Attr, "style")
		ov, has := firstAttr(ot.Attr, "style")
		ins, outs := parseDecls(iv), parseDecls(ov)
		j := 0
		must, may := 0, 0
		for _, d := range ins {
			prop := asciiLower(d.Prop)
			val := asciiLower(strings.TrimSpace(d.Value))
			inU := declAccepted(m, it.Name, d)
			inL := false
			for _, cnd := range propCandidates(prop)[len(propCandidates(prop))-1:] {
				for _, ru := range mustKeepRules(m, it.Name, cnd) {
					if ru.accepts(val) {
						inL = true
					}
				}
			}
			matches := j < len(outs) && outs[j].Prop == d.Prop && strings.TrimSpace(outs[j].Value) == strings.TrimSpace(d.Value)
			switch {
			case inL:
				must++
				if !matches {
					return violation(out, "C10(clean): declaration %s: %s on <%s> is accepted by a rule registered for it but is missing (or out of order) in the output style %q", d.Prop, d.Value, it.Name, ov)
				}
				j++
			case inU:
				may++
				if matches {
					j++
				}
			default:
				if matches {
					return violation(out, "C10(clean): declaration %s: %s on <%s> is accepted by no rule but was kept", d.Prop, d.Value, it.Name)
				}
			}
		}
		if j != len(outs) {
			return violation(out, "C10(clean): output style %q on <%s> has declarations that do not stem, in order, from the input style %q", ov, it.Name, iv)
		}
		if must == 0 && may == 0 && has {
			return violation(out, "C10(clean): style attribute kept on <%s> although no declaration is accepted", it.Name)
		}
		if must > 0 && len(ins) > must {
			nt = true
		}
	}
	r.Class("clean_style_case")
	if nt {
		r.NonTrivial("clean\x00"+c.Spec.String()+"\x00"+in, func() any {
			return map[string]any{"kind": "clean", "policy": c.Spec.String(), "input": q(trunc(in, 300)), "output": q(trunc(out, 300))}
		})
	}
	return nil
}

func init() {
	register(&Prop{ID: "C10", Gen: func(t *rapid.T) *Case {
		if rapid.IntRange(0, 2).Draw(t, "cleanOrHostile") == 0 {
			return genC10Clean(t)
		}
		return genC10(t)
	}, Check: checkC10})
}
