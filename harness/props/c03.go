package props

import (
	"net/url"
	"sort"
	"strings"

	"pgregory.net/rapid"
)

// C03 — URL attributes carry only allowed schemes (or allowed relative URLs).

var schemeSpell = []string{"http", "https", "mailto", "javascript", "JaVaScRiPt", "data", "ftp", "vbscript", "x-app", "tel", "java\tscript", "java\nscript", "java\rscript", "java\x00script",
	"jav&#x61;script", "javascript&colon", "livescript", "file", "blob", "ws", "h\ttp", "", "1http", "+x", "HTTP", "Https", "sftp", "tels", "x-b", "DATA", "http\x00", "ht\ttps"}
var padPool = []string{"", "", "", "", " ", "\t", "\n", "\r", "\x00", "\x01", "\x0b", "\x0c", "\x1f", "\u00a0", "\u2003", "\u0085", "\ufeff", "&#9;", "&NewLine;", "&Tab;", "\x7f", "\u2028", "\u3000", "\x1c"}
var restPool = []string{"//example.com/", "//example.org/a?b=c#d", "//example.org/ok/x", "alert(1)", "//user:pw@h:80/p", "a@b.c", "text/html,<script>alert(1)</script>", "image/png;base64,iVBORw0KGgo=",
	"image/png;base64,iVBO\nRw0KGgo=", "image/gif;base64,R0lGODlh", "image/svg+xml;base64,PHN2Zz4=", "image/png;base64,iVBORw0KGgo=?x", "image/png;base64,iVBORw0KGgo=#f", "image/png;base64,@@@",
	"/\\evil.com", "\\\\evil.com", "//[::1]/", "//é.com/é", "%zz", "", "x y", "x\ty", "//h/p?q=a b", "//h/%2f", "+123", "/ok/p", "//h/?a=1;b=2&<c>=3", "//h/?%zz", "//h:x/", "//h\x7f/"}
var relPool = []string{"/%2Fevil.com\"", "/%2fevil.com/\u00e9", "/%2F%2Fx\"y", "%2F/x'", "/a/..%2F%2Fb<", "/a/b", "a/b", "../x", "//host/p", "#f", "?q", "a:b", "./a:b", "%6aavascript:alert(1)", "\\\\evil.com\\x", "/\\evil", "", ".", "a b", "a\tb", "é", "%zz", "//", "///x", "////x", ":x",
	"/:x", "/ok/x", "?a=<b>&c=\"d\"", "#\"><x>", "a\x00b", "a\x7fb", "/a?b=c;d=e"}

func genURL(t *rapid.T) string { return genURLFor(t, nil) }

// genURLFor biases a third of the URLs towards the schemes the policy itself allows, so that
// survivors and custom-check invocations are frequent.
func genURLFor(t *rapid.T, m *Model) string {
	pad := func() string { return rapid.SampledFrom(padPool).Draw(t, "pad") }
	var u string
	if m != nil && len(m.schemes) > 0 && rapid.IntRange(0, 2).Draw(t, "own") == 0 {
		schemes := make([]string, 0, len(m.schemes))
		for k := range m.schemes {
			schemes = append(schemes, k)
		}
		sort.Strings(schemes)
		u = mangleCase(t, rapid.SampledFrom(schemes).Draw(t, "ownsch")) + ":" + rapid.SampledFrom(restPool).Draw(t, "rest")
		if rapid.IntRange(0, 3).Draw(t, "ownpad") == 0 {
			u = pad() + u + pad()
		}
	} else if rapid.IntRange(0, 3).Draw(t, "rel") == 0 {
		u = pad() + rapid.SampledFrom(relPool).Draw(t, "relv") + pad()
	} else {
		sep := rapid.SampledFrom([]string{":", ":", ":", ":", "&colon;", "&#58;", "&#x3a;", "%3a", " :", ":\t"}).Draw(t, "sep")
		u = pad() + rapid.SampledFrom(schemeSpell).Draw(t, "sch") + sep + pad() + rapid.SampledFrom(restPool).Draw(t, "rest") + pad()
	}
	// occasional byte mutation
	if len(u) > 0 && rapid.IntRange(0, 9).Draw(t, "mut") == 0 {
		i := rapid.IntRange(0, len(u)-1).Draw(t, "muti")
		b := byte(rapid.IntRange(0, 255).Draw(t, "mutb"))
		u = u[:i] + string([]byte{b}) + u[i+1:]
	}
	return u
}

var urlPositions = [][2]string{{"a", "href"}, {"area", "href"}, {"base", "href"}, {"link", "href"}, {"blockquote", "cite"}, {"del", "cite"}, {"ins", "cite"}, {"q", "cite"},
	{"audio", "src"}, {"embed", "src"}, {"iframe", "src"}, {"img", "src"}, {"image", "src"}, {"input", "src"}, {"source", "src"}, {"track", "src"}, {"video", "src"}, {"script", "src"}}

var urlOpKinds = []string{"RequireParseableURLs", "AllowRelativeURLs", "AllowRelativeURLs", "AllowURLSchemes", "AllowURLSchemes", "AllowURLSchemes", "AllowURLSchemesMatching", "AllowURLSchemeWithCustomPolicy",
	"AllowURLSchemeWithCustomPolicy", "RewriteSrc", "RequireNoFollowOnLinks", "RequireNoFollowOnFullyQualifiedLinks", "RequireNoReferrerOnLinks", "AddTargetBlankToFullyQualifiedLinks",
	"AllowStandardURLs", "AllowImages", "AllowDataURIImages", "AllowAttrs", "AllowElementsMatching", "RequireCrossOriginAnonymous", "AddSpaceWhenStrippingTag"}

func urlAttrPre(t *rapid.T) []Op {
	pre := []Op{}
	for _, g := range []struct {
		attr string
		els  []string
	}{{"href", []string{"a", "area", "base", "link"}}, {"cite", []string{"blockquote", "del", "ins", "q"}}, {"src", []string{"audio", "embed", "iframe", "img", "input", "source", "track", "video", "script"}}} {
		op := Op{Kind: "AllowAttrs", Attrs: []string{g.attr}, ValRe: -1, Scope: "els", Names: g.els}
		switch rapid.IntRange(0, 7).Draw(t, "preScope") {
		case 0:
			op.Scope, op.Names = "global", nil
		case 1:
			op.Scope, op.Names, op.ElRe = "elre", nil, 4 // .*
		case 2:
			op.ValRe = 8 // ^https?://
		}
		pre = append(pre, op)
	}
	return pre
}

func genC03(t *rapid.T) *Case {
	spec := genSpec(t, &SpecOpts{Bases: []string{"New", "New", "New", "UGC"}, Kinds: urlOpKinds, MinOps: 1, MaxOps: 7, Pre: urlAttrPre(t)})
	if !BuildModel(spec).parseURLs {
		spec.Ops = append(spec.Ops, Op{Kind: "RequireParseableURLs", B: true, ValRe: -1})
	}
	var sb strings.Builder
	m := BuildModel(spec)
	n := rapid.IntRange(1, 3).Draw(t, "nurls")
	for i := 0; i < n; i++ {
		pos := rapid.SampledFrom(urlPositions).Draw(t, "pos")
		u := genURLFor(t, m)
		quote := rapid.SampledFrom([]string{`"`, `"`, `'`}).Draw(t, "quote")
		esc := strings.ReplaceAll(u, quote, map[string]string{`"`: "&quot;", `'`: "&#39;"}[quote])
		sb.WriteString("<" + pos[0] + " " + pos[1] + "=" + quote + esc + quote)
		if rapid.IntRange(0, 3).Draw(t, "second") == 0 {
			sb.WriteString(" " + pos[1] + "=\"" + strings.ReplaceAll(genURL(t), `"`, "&quot;") + "\"")
		}
		if rapid.IntRange(0, 3).Draw(t, "other") == 0 {
			sb.WriteString(` id="i1" rel="x"`)
		}
		if rapid.IntRange(0, 5).Draw(t, "selfClosing") == 0 {
			sb.WriteString("/") // <img src="..."/>, <image src="..."/>: self-closing syntax
		}
		sb.WriteString(">x")
		if !voidEls[pos[0]] {
			sb.WriteString("</" + pos[0] + ">")
		}
	}
	return &Case{Spec: spec, Input: BStr(sb.String())}
}

// urlValueOK judges one surviving URL value at a checked position. ok=false comes with a reason.
func urlValueOK(m *Model, log *Log, v string) (bool, string) {
	sch, abs := schemeOf(v)
	if abs {
		allowed, custom := m.SchemeAllowed(sch)
		if !allowed {
			return false, "scheme " + q(sch) + " is not on the policy's allowlist"
		}
		if len(custom) > 0 {
			approved := log.Approved[v]
			for _, id := range custom {
				if id == dataURIFn {
					if u, err := url.Parse(v); err == nil && dataURIImageOK(u) {
						approved = true
					}
				}
			}
			if !approved {
				return false, "scheme " + q(sch) + " has custom checks registered and none of them approved this URL during the call"
			}
		}
	} else {
		if !m.relative {
			return false, "relative reference although relative URLs are not allowed"
		}
	}
	if hasCtlOrSpace(v) {
		// (no exception for data: URLs: the library's exception is for line-wrapped base64 payloads,
		// whose line breaks it removes; what survives must be free of white space like any URL)
		return false, "value contains whitespace or a control character"
	}
	return true, ""
}

func checkC03(c *Case, r *Rec) error {
	m := BuildModel(c.Spec)
	if !m.parseURLs {
		return nil // not in the property's domain (replayed case with a changed spec)
	}
	in := string(c.Input)
	out, log := sanitizeSpec(c.Spec, in)
	inToks, outToks := tokenize(in), tokenize(out)
	survivors := 0
	hist := map[string]int{}
	for _, t := range outToks {
		if !isOpenTag(t) {
			continue
		}
		key := urlPos[t.Name]
		if key == "" {
			continue
		}
		for _, a := range t.Attr {
			if a.Key != key {
				continue
			}
			survivors++
			hist[t.Name]++
			if key == "src" && m.rewriter >= 0 && srcRewritePos[t.Name] {
				if !log.Rewritten[a.Val] {
					return violation(out, "C03: src=%q on <%s> survives but is not a result the installed rewriter returned during this call", a.Val, t.Name)
				}
				continue
			}
			if ok, why := urlValueOK(m, log, a.Val); !ok {
				return violation(out, "C03: %s=%q on <%s> survives: %s", key, a.Val, t.Name, why)
			}
		}
	}
	// the rewriter is only ever handed URLs that passed validation
	for _, u := range log.RewriteIn {
		if ok, why := urlValueOK(m, log, u); !ok {
			return violation(out, "C03: the src rewriter was applied to %q, which should have been removed: %s", u, why)
		}
	}
	// classification
	hostile := false
	for _, t := range inToks {
		if !isOpenTag(t) || urlPos[t.Name] == "" {
			continue
		}
		for _, a := range t.Attr {
			if a.Key != urlPos[t.Name] {
				continue
			}
			sch, abs := schemeOf(a.Val)
			if abs {
				if ok, _ := m.SchemeAllowed(sch); !ok {
					hostile = true
				}
			} else if !m.relative {
				hostile = true
			}
			if hasCtlOrSpace(a.Val) {
				hostile = true
			}
		}
	}
	names := make([]string, 0, len(hist))
	for k := range hist {
		names = append(names, k)
	}
	sort.Strings(names)
	for _, k := range names {
		r.ClassN("survivor_at:"+k, hist[k])
	}
	if m.rewriter >= 0 {
		r.Class("policy_has_rewriter")
	}
	if len(m.schemeRes) > 0 {
		r.Class("policy_has_scheme_pattern")
	}
	if log.Calls > 0 {
		r.Class("callback_invoked")
	}
	if hostile {
		r.Class("input_has_disallowed_url")
	}
	if hostile && survivors > 0 {
		r.NonTrivial(c.Spec.String()+"\x00"+in, func() any {
			return map[string]any{"policy": c.Spec.String(), "input": q(trunc(in, 300)), "output": q(trunc(out, 300))}
		})
	}
	return nil
}

func init() {
	register(&Prop{ID: "C03", Gen: genC03, Check: checkC03})
}
