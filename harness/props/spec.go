package props

import (
	"encoding/base64"
	"fmt"
	"net/url"
	"regexp"
	"sort"
	"strings"

	"github.com/microcosm-cc/bluemonday"
	"github.com/microcosm-cc/bluemonday/css"
	"pgregory.net/rapid"
)

// ---------------------------------------------------------------------------------------------
// Closed pools. A policy is a *value* (Spec) drawn from these pools and interpreted twice:
// Build() calls the real builder API, BuildModel() is the harness's own reading of the
// documented semantics.

var elemPool = []string{"a", "b", "i", "p", "div", "span", "img", "br", "hr", "table", "tr", "td", "th", "tbody", "ul", "li", "h1", "h2",
	"blockquote", "q", "del", "ins", "area", "map", "link", "base", "audio", "video", "source", "track", "embed", "iframe", "input", "form", "button",
	"select", "option", "textarea", "title", "object", "svg", "math", "xmp", "noscript", "plaintext", "script", "style", "my-x", "my-y", "x-a-y", "tag1",
	"font", "main", "label", "meta", "frameset", "frame", "nostyle", "noembed", "noframes", "image", "template", "details", "summary", "bdo", "time", "pre", "code",
	"col", "colgroup", "caption", "em", "u", "h3", "ol", "dl", "dt", "dd", "section", "param", "wbr",
	// custom element names with non-ASCII characters (valid, and left alone by the tokenizer's ASCII lower-casing)
	"x-caf\u00e9", "my-\u00fc"}

var attrPool = []string{"href", "src", "cite", "id", "class", "title", "alt", "lang", "dir", "name", "rel", "target", "style", "onclick", "onerror",
	"width", "height", "align", "data-x", "data-xml-a", "data-a;b", "value", "type", "crossorigin", "sandbox", "datetime", "colspan", "xlink:href", "open", "nowrap",
	"action", "formaction", "srcset", "background", "poster"}

type rePoolEntry struct {
	re   *regexp.Regexp
	good []string
	bad  []string
}

// attribute value patterns: the eleven exported matchers, the unanchored ones the helpers use, and a few more
var valRePool = []rePoolEntry{
	{bluemonday.Integer, []string{"0", "42"}, []string{"", "4x", "-1", "<1>"}},
	{bluemonday.NumberOrPercent, []string{"10", "50%"}, []string{"%", "x"}},
	{bluemonday.Direction, []string{"rtl", "LTR"}, []string{"up", ""}},
	{bluemonday.SpaceSeparatedTokens, []string{"a b", "nofollow", "x-y_z"}, []string{"", "a<b", "a\"b"}},
	{bluemonday.Paragraph, []string{"Hello, world!", "", "it's"}, []string{"a<b", "a\"b", "a&b"}},
	{regexp.MustCompile(`^[a-z]+$`), []string{"abc"}, []string{"", "ABC", "a b"}},
	{regexp.MustCompile(`[a-zA-Z]{2,20}`), []string{"en", "x<en>"}, []string{"", "1", "e"}},
	{regexp.MustCompile(`(?i)^(|open)$`), []string{"", "OPEN"}, []string{"x"}},
	{regexp.MustCompile(`^https?://`), []string{"http://example.com/"}, []string{"ftp://x", "javascript:alert(1)"}},
	{bluemonday.CellAlign, []string{"center", "LEFT", "char"}, []string{"", "middle", "left "}},
	{bluemonday.CellVerticalAlign, []string{"baseline", "TOP"}, []string{"", "left"}},
	{bluemonday.ImageAlign, []string{"left", "Middle"}, []string{"", "center"}},
	{bluemonday.ISO8601, []string{"1997", "1997-07-16", "1997-07-16T19:20:30.45+01:00"}, []string{"", "97", "1997-7-16"}},
	{bluemonday.ListType, []string{"circle", "A", "i"}, []string{"", "x", "aa"}},
	{bluemonday.Number, []string{"1", "-1.5", "+2e3", ".5", "-.25", ".5e1", "007"}, []string{"", "e", "1,0", "5.", "1e"}},
	{regexp.MustCompile(`^(nofollow|noopener|noreferrer| )*$`), []string{"", "nofollow", "nofollow noopener"}, []string{"x", "nofollowx"}},
	{regexp.MustCompile(`^_(blank|self)$`), []string{"_blank", "_self"}, []string{"", "blank", "_top"}},
	// pure literals: fully anchored, \A..\z anchored, and unanchored
	{regexp.MustCompile(`^_blank$`), []string{"_blank"}, []string{"", "my_blank_frame", "_blankx", "x_blank"}},
	{regexp.MustCompile(`\Artl\z`), []string{"rtl"}, []string{"", "xrtlx", "rtl ", "RTL"}},
	{regexp.MustCompile(`nofollow`), []string{"nofollow", "xnofollowx"}, []string{"", "nofollo"}},
	{regexp.MustCompile(`^(?:abc)$`), []string{"abc"}, []string{"", "abcabc", "xabcx"}},
}

var elRePool = []*regexp.Regexp{
	regexp.MustCompile(`^my-`), regexp.MustCompile(`-y$`), regexp.MustCompile(`^x-`), regexp.MustCompile(`^h[1-6]$`),
	regexp.MustCompile(`.*`), regexp.MustCompile(`^s`), regexp.MustCompile(`^(b|i|u|em)$`), regexp.MustCompile(`tag`),
	regexp.MustCompile(`^(a|img|iframe|link)$`), regexp.MustCompile(`^[a-z]{1,3}$`),
	// the same expressions compiled a second time (callers usually compile inline): distinct
	// *regexp.Regexp values with identical source text
	regexp.MustCompile(`^my-`), regexp.MustCompile(`.*`), regexp.MustCompile(`-y$`),
	// an inline flag, and expressions that match no (lower-cased) tag name unless some other
	// expression's flag leaks into them
	regexp.MustCompile(`(?i)^my-[a-z]+$`), regexp.MustCompile(`^X-[a-z-]+$`), regexp.MustCompile(`(?s)^q.q$`), regexp.MustCompile(`^SX$|^DIV$`),
}

// sample names for each element pattern (used by conforming-document generation)
var elReSamples = [][]string{{"my-x", "my-zzz"}, {"my-y", "x-a-y"}, {"x-a-y", "x-q"}, {"h1", "h3", "h6"}, {"zz", "my-x", "div", "custom"}, {"span", "sx", "section"},
	{"b", "i", "u", "em"}, {"tag1", "tagged"}, {"a", "img", "link"}, {"b", "ul", "del", "qq"}, {"my-x", "my-zzz"}, {"zz", "my-x", "div", "custom"}, {"my-y", "x-a-y"},
	{"my-x", "my-zzz"}, {}, {"qxq"}, {}}

var schemePool = []string{"http", "https", "mailto", "ftp", "data", "x-app", "javascript", "tel", "zoommtg", ""}

var schemeRePool = []*regexp.Regexp{regexp.MustCompile(`^x-`), regexp.MustCompile(`^(ftp|sftp)$`), regexp.MustCompile(`^tel$`), regexp.MustCompile(`s$`), regexp.MustCompile(`^[a-z]+$`), regexp.MustCompile(`^(https?|ftp)?$`), regexp.MustCompile(`^[a-z]*$`)}

var stylePropPool = []string{"color", "font-family", "text-decoration", "margin", "background-image", "opacity", "nosuchprop", "text-align", "width", "x-any", "x-kw",
	"background", "font-size", "border", "animation", "filter", "list-style", "transition", "height", "float", "-webkit-color", "-moz-text-align", "mso-width", "z-index"}

var styleRePool = []rePoolEntry{
	{regexp.MustCompile(`^[a-z]+$`), []string{"red", "left"}, []string{"", "a b", "1"}},
	{regexp.MustCompile(`^#[0-9a-f]{3,6}$`), []string{"#fff", "#a0b1c2"}, []string{"fff", "#ff"}},
	{regexp.MustCompile(`^[0-9]+(px|em|%)$`), []string{"10px", "2em", "50%"}, []string{"px", "10", "-1px"}},
	{regexp.MustCompile(`(?i)^(left|right)$`), []string{"left", "right"}, []string{"center", ""}},
	{regexp.MustCompile(`[0-9]+`), []string{"1", "a1b"}, []string{"", "abc"}},
	{regexp.MustCompile(`^[a-z ]*$`), []string{"", "a b", "re d"}, []string{"A1", "a;b"}},
	{regexp.MustCompile(`^red`), []string{"red", "red !important"}, []string{"", "blue"}}, // unanchored at the end
	{regexp.MustCompile(`px`), []string{"1px", "px\\"}, []string{"", "em"}},
	// deny-list style patterns (negated classes): everything but a colon / a parenthesis
	{regexp.MustCompile(`^[^:]*$`), []string{"red", "10px"}, []string{"a:b"}},
	{regexp.MustCompile(`^[^(;]*$`), []string{"red", "a b"}, []string{"f(x)"}},
	// white space of any kind between two words
	{regexp.MustCompile(`^[a-z]+\s[a-z]+$`), []string{"alpha beta", "a b"}, []string{"ab", "a  b"}},
}

var styleEnumPool = [][]string{{"left", "right", "center"}, {"red", "re d", "BLUE"}, {"10px"}, {"none", "underline"}, {"solid", "block", "Dashed"}}

// pure callbacks ------------------------------------------------------------------------------

type urlFnEntry struct {
	name string
	fn   func(u *url.URL) bool
}

var urlFns = []urlFnEntry{
	{"hostIsExampleOrg", func(u *url.URL) bool { return u.Host == "example.org" }},
	{"always", func(u *url.URL) bool { return true }},
	{"never", func(u *url.URL) bool { return false }},
	{"pathStartsOk", func(u *url.URL) bool { return strings.HasPrefix(u.Path, "/ok") }},
}

type rewriterEntry struct {
	name string
	fn   func(u *url.URL)
}

var rewriters = []rewriterEntry{
	{"proxy", func(u *url.URL) {
		orig := u.String()
		*u = url.URL{Scheme: "https", Host: "proxy.test", Path: "/p", RawQuery: "u=" + url.QueryEscape(orig)}
	}},
	{"noop", func(u *url.URL) {}},
	{"fragment", func(u *url.URL) { u.Fragment = "rw" }},
}

type styleFnEntry struct {
	name string
	fn   func(string) bool
}

var inertCSS = regexp.MustCompile(`^[a-z0-9 #%.,-]*$`)

var styleFns = []styleFnEntry{
	{"always", func(string) bool { return true }},
	{"never", func(string) bool { return false }},
	{"closedSet", func(v string) bool { return v == "red" || v == "blue" || v == "1px" || v == "alpha beta" }},
	{"inertChars", func(v string) bool { return inertCSS.MatchString(v) }},
	{"oneOf(teal)", oneOf("teal")},
	{"oneOf(plum,1px)", oneOf("plum", "1px")},
	{"oneOf(red)", oneOf("red")},
}

// oneOf returns closures of ONE function literal that differ only in captured state. It must not
// be inlined: the compiler would duplicate the literal per call site and the closures would no
// longer share a code pointer (which is what a cache keyed by the handler's identity confuses).
//
//go:noinline
func oneOf(set ...string) func(string) bool {
	return func(v string) bool {
		for _, s := range set {
			if s == v {
				return true
			}
		}
		return false
	}
}

// Log records what the callbacks of one policy instance saw (per case; never shared).
type Log struct {
	Approved  map[string]bool // u.String() of every URL a custom check approved
	Rewritten map[string]bool // u.String() after every rewriter call
	RewriteIn []string        // u.String() before every rewriter call
	Calls     int
}

func newLog() *Log { return &Log{Approved: map[string]bool{}, Rewritten: map[string]bool{}} }

// ---------------------------------------------------------------------------------------------

type Op struct {
	Kind   string   `json:"op"`
	Names  []string `json:"names,omitempty"` // elements / schemes / skip names
	Attrs  []string `json:"attrs,omitempty"` // attribute names or CSS properties
	ValRe  int      `json:"val_re"`          // index into valRePool / styleRePool, -1 none
	ElRe   int      `json:"el_re"`
	Scope  string   `json:"scope,omitempty"` // "els", "elre", "global"
	NoAttr bool     `json:"no_attrs,omitempty"`
	B      bool     `json:"b,omitempty"`
	Vals   []int    `json:"vals,omitempty"`  // sandbox values
	Match  string   `json:"match,omitempty"` // styles: "", "re", "enum", "fn"
	Enum   int      `json:"enum,omitempty"`
	Fn     int      `json:"fn,omitempty"`   // callback index
	Stmt   bool     `json:"stmt,omitempty"` // builder used as separate statements (results of Matching / AllowNoAttrs discarded) instead of one chain
}

type Spec struct {
	Base string `json:"base"` // New | UGC | Strict
	Ops  []Op   `json:"ops"`
}

func (s *Spec) String() string {
	if s == nil {
		return "<nil>"
	}
	var sb strings.Builder
	if s.Base == "Zero" {
		sb.WriteString("&Policy{}")
	} else {
		sb.WriteString(s.Base + "Policy()")
	}
	for _, o := range s.Ops {
		fmt.Fprintf(&sb, "; %s", o.String())
	}
	return sb.String()
}

func scopeString(o Op) string {
	switch o.Scope {
	case "els":
		return fmt.Sprintf(".OnElements(%s)", quoteList(o.Names))
	case "elre":
		return fmt.Sprintf(".OnElementsMatching(`%s`)", elRePool[o.ElRe])
	default:
		return ".Globally()"
	}
}

func quoteList(l []string) string {
	q := make([]string, len(l))
	for i, s := range l {
		q[i] = fmt.Sprintf("%q", s)
	}
	return strings.Join(q, ",")
}

func (o Op) String() string {
	if o.Stmt {
		o2 := o
		o2.Stmt = false
		return o2.String() + " /*as separate statements*/"
	}
	switch o.Kind {
	case "AllowAttrs":
		s := fmt.Sprintf("AllowAttrs(%s)", quoteList(o.Attrs))
		if o.ValRe >= 0 {
			s += fmt.Sprintf(".Matching(`%s`)", valRePool[o.ValRe].re)
		}
		if o.NoAttr {
			s += ".AllowNoAttrs()"
		}
		return s + scopeString(o)
	case "AllowNoAttrs":
		return "AllowNoAttrs()" + scopeString(o)
	case "AllowStyles":
		s := fmt.Sprintf("AllowStyles(%s)", quoteList(o.Attrs))
		switch o.Match {
		case "re":
			s += fmt.Sprintf(".Matching(`%s`)", styleRePool[o.ValRe].re)
		case "enum":
			s += fmt.Sprintf(".MatchingEnum(%s)", quoteList(styleEnumPool[o.Enum]))
		case "fn":
			s += fmt.Sprintf(".MatchingHandler(%s)", styleFns[o.Fn].name)
		}
		return s + scopeString(o)
	case "AllowElementsMatching":
		return fmt.Sprintf("AllowElementsMatching(`%s`)", elRePool[o.ElRe])
	case "AllowURLSchemesMatching":
		return fmt.Sprintf("AllowURLSchemesMatching(`%s`)", schemeRePool[o.ValRe])
	case "AllowURLSchemeWithCustomPolicy":
		return fmt.Sprintf("AllowURLSchemeWithCustomPolicy(%q,%s)", o.Names[0], urlFns[o.Fn].name)
	case "RewriteSrc":
		return fmt.Sprintf("RewriteSrc(%s)", rewriters[o.Fn].name)
	case "AllowElements", "SkipElementsContent", "AllowElementsContent", "AllowURLSchemes":
		return fmt.Sprintf("%s(%s)", o.Kind, quoteList(o.Names))
	case "RequireSandboxOnIFrame", "AllowIFrames":
		return fmt.Sprintf("%s(%v)", o.Kind, o.Vals)
	case "AllowDataAttributes", "AllowComments", "AllowStandardURLs", "AllowStandardAttributes", "AllowStyling", "AllowImages", "AllowLists", "AllowTables", "AllowDataURIImages":
		return o.Kind + "()"
	}
	return fmt.Sprintf("%s(%v)", o.Kind, o.B)
}

// all op kinds; weights by repetition
var ruleKinds = []string{"AllowElements", "AllowElementsMatching", "AllowAttrs", "AllowNoAttrs", "AllowStyles", "AllowURLSchemesMatching"}
var switchKinds = []string{"SkipElementsContent", "AllowElementsContent", "AllowDataAttributes", "AllowComments", "AddSpaceWhenStrippingTag",
	"RequireParseableURLs", "AllowRelativeURLs", "AllowURLSchemes", "AllowURLSchemeWithCustomPolicy", "RewriteSrc",
	"RequireNoFollowOnLinks", "RequireNoFollowOnFullyQualifiedLinks", "RequireNoReferrerOnLinks", "RequireNoReferrerOnFullyQualifiedLinks",
	"AddTargetBlankToFullyQualifiedLinks", "RequireCrossOriginAnonymous", "RequireSandboxOnIFrame"}
var helperKinds = []string{"AllowStandardURLs", "AllowStandardAttributes", "AllowStyling", "AllowImages", "AllowLists", "AllowTables", "AllowIFrames", "AllowDataURIImages"}

var defaultOpKinds = func() []string {
	k := []string{"AllowElements", "AllowElements", "AllowAttrs", "AllowAttrs", "AllowAttrs", "AllowAttrs", "AllowStyles"}
	k = append(k, ruleKinds...)
	k = append(k, switchKinds...)
	k = append(k, helperKinds...)
	return k
}()

func subset(t *rapid.T, pool []string, min, max int, label string) []string {
	n := rapid.IntRange(min, max).Draw(t, label+"N")
	out := make([]string, 0, n)
	for i := 0; i < n; i++ {
		s := rapid.SampledFrom(pool).Draw(t, label)
		if rapid.IntRange(0, 11).Draw(t, label+"case") == 0 {
			s = strings.ToUpper(s)
		}
		out = append(out, s)
	}
	return out
}

type SpecOpts struct {
	Bases   []string
	Kinds   []string
	MinOps  int
	MaxOps  int
	Pre     []Op
	ElPool  []string
	AtPool  []string
	StPool  []string // CSS property names for AllowStyles
	NoFuncs bool     // no callbacks (for properties that need value-identical rebuilds this does not matter; kept for C20's class)
}

func genOp(t *rapid.T, kind string, o *SpecOpts) Op {
	els, ats := elemPool, attrPool
	if o != nil && o.ElPool != nil {
		els = o.ElPool
	}
	if o != nil && o.AtPool != nil {
		ats = o.AtPool
	}
	op := Op{Kind: kind, ValRe: -1}
	scope := func() {
		op.Scope = rapid.SampledFrom([]string{"els", "els", "elre", "global"}).Draw(t, "scope")
		if op.Scope == "els" {
			op.Names = subset(t, els, 1, 4, "el")
		} else if op.Scope == "elre" {
			op.ElRe = rapid.IntRange(0, len(elRePool)-1).Draw(t, "elre")
		}
	}
	switch kind {
	case "AllowElements", "SkipElementsContent", "AllowElementsContent":
		op.Names = subset(t, els, 1, 4, "el")
		if rapid.IntRange(0, 29).Draw(t, "emptyNames") == 0 {
			op.Names = nil
		}
	case "AllowElementsMatching":
		op.ElRe = rapid.IntRange(0, len(elRePool)-1).Draw(t, "elre")
	case "AllowAttrs":
		op.Attrs = subset(t, ats, 1, 3, "attr")
		if rapid.IntRange(0, 19).Draw(t, "emptyAttrList") == 0 {
			op.Attrs = nil // AllowAttrs() with an empty (e.g. configuration-driven) list
		}
		op.Stmt = rapid.IntRange(0, 5).Draw(t, "stmt") == 0
		if rapid.Bool().Draw(t, "hasre") {
			op.ValRe = rapid.IntRange(0, len(valRePool)-1).Draw(t, "valre")
		}
		op.NoAttr = rapid.IntRange(0, 5).Draw(t, "noattr") == 0
		scope()
	case "AllowNoAttrs":
		op.Scope = rapid.SampledFrom([]string{"els", "elre"}).Draw(t, "scope")
		if op.Scope == "els" {
			op.Names = subset(t, els, 1, 4, "el")
		} else {
			op.ElRe = rapid.IntRange(0, len(elRePool)-1).Draw(t, "elre")
		}
	case "AllowStyles":
		op.Stmt = rapid.IntRange(0, 5).Draw(t, "stmt") == 0
		sp := stylePropPool
		if o != nil && o.StPool != nil {
			sp = o.StPool
		}
		op.Attrs = subset(t, sp, 1, 3, "sprop")
		op.Match = rapid.SampledFrom([]string{"", "", "re", "enum", "fn"}).Draw(t, "smatch")
		switch op.Match {
		case "re":
			op.ValRe = rapid.IntRange(0, len(styleRePool)-1).Draw(t, "sre")
		case "enum":
			op.Enum = rapid.IntRange(0, len(styleEnumPool)-1).Draw(t, "senum")
		case "fn":
			op.Fn = rapid.IntRange(0, len(styleFns)-1).Draw(t, "sfn")
		}
		scope()
	case "AllowURLSchemesMatching":
		op.ValRe = rapid.IntRange(0, len(schemeRePool)-1).Draw(t, "schre")
	case "AllowURLSchemes":
		op.Names = subset(t, schemePool, 1, 3, "scheme")
	case "AllowURLSchemeWithCustomPolicy":
		op.Names = subset(t, schemePool, 1, 1, "scheme")
		op.Fn = rapid.IntRange(0, len(urlFns)-1).Draw(t, "ufn")
	case "RewriteSrc":
		op.Fn = rapid.IntRange(0, len(rewriters)-1).Draw(t, "rwfn")
	case "RequireSandboxOnIFrame", "AllowIFrames":
		k := rapid.IntRange(0, 5).Draw(t, "nsb")
		for j := 0; j < k; j++ {
			op.Vals = append(op.Vals, rapid.IntRange(0, 13).Draw(t, "sb"))
		}
	case "AllowDataAttributes", "AllowComments", "AllowStandardURLs", "AllowStandardAttributes", "AllowStyling", "AllowImages", "AllowLists", "AllowTables", "AllowDataURIImages":
	default:
		op.B = rapid.IntRange(0, 4).Draw(t, "b") != 0
	}
	return op
}

func genSpec(t *rapid.T, o *SpecOpts) *Spec {
	if o == nil {
		o = &SpecOpts{}
	}
	bases := o.Bases
	if bases == nil {
		bases = []string{"New", "New", "New", "New", "New", "New", "UGC", "UGC", "Zero"}
	}
	kinds := o.Kinds
	if kinds == nil {
		kinds = defaultOpKinds
	}
	max := o.MaxOps
	if max == 0 {
		max = 10
	}
	s := &Spec{Base: rapid.SampledFrom(bases).Draw(t, "base")}
	s.Ops = append(s.Ops, o.Pre...)
	n := rapid.IntRange(o.MinOps, max).Draw(t, "nops")
	for i := 0; i < n; i++ {
		s.Ops = append(s.Ops, genOp(t, rapid.SampledFrom(kinds).Draw(t, "kind"), o))
	}
	return s
}

func sbv(vals []int) []bluemonday.SandboxValue {
	out := []bluemonday.SandboxValue{}
	for _, v := range vals {
		out = append(out, bluemonday.SandboxValue(v))
	}
	return out
}

// Build interprets the spec with the real builder API. With a non-nil log the URL
// callbacks record what they approved / returned.
func Build(s *Spec, log *Log) *bluemonday.Policy {
	var p *bluemonday.Policy
	switch s.Base {
	case "UGC":
		p = bluemonday.UGCPolicy()
	case "Strict":
		p = bluemonday.StrictPolicy()
	case "Zero":
		// a Policy literal that never went through NewPolicy: the code documents that it is
		// initialised on demand (without the default bare-element and skip-content tables)
		p = &bluemonday.Policy{}
	default:
		p = bluemonday.NewPolicy()
	}
	for _, o := range s.Ops {
		ApplyOp(p, o, log)
	}
	return p
}

func ApplyOp(p *bluemonday.Policy, o Op, log *Log) {
	switch o.Kind {
	case "AllowElements":
		p.AllowElements(o.Names...)
	case "AllowElementsMatching":
		p.AllowElementsMatching(elRePool[o.ElRe])
	case "AllowAttrs":
		b := p.AllowAttrs(o.Attrs...)
		if o.Stmt {
			// statement style: the modifiers act on the builder they are called on
			if o.ValRe >= 0 {
				b.Matching(valRePool[o.ValRe].re)
			}
			if o.NoAttr {
				b.AllowNoAttrs()
			}
		} else {
			if o.ValRe >= 0 {
				b = b.Matching(valRePool[o.ValRe].re)
			}
			if o.NoAttr {
				b = b.AllowNoAttrs()
			}
		}
		switch o.Scope {
		case "els":
			b.OnElements(o.Names...)
		case "elre":
			b.OnElementsMatching(elRePool[o.ElRe])
		default:
			b.Globally()
		}
	case "AllowNoAttrs":
		if o.Scope == "els" {
			p.AllowNoAttrs().OnElements(o.Names...)
		} else {
			p.AllowNoAttrs().OnElementsMatching(elRePool[o.ElRe])
		}
	case "AllowStyles":
		b := p.AllowStyles(o.Attrs...)
		if o.Stmt {
			switch o.Match {
			case "re":
				b.Matching(styleRePool[o.ValRe].re)
			case "enum":
				b.MatchingEnum(styleEnumPool[o.Enum]...)
			case "fn":
				b.MatchingHandler(styleFns[o.Fn].fn)
			}
		} else {
			switch o.Match {
			case "re":
				b = b.Matching(styleRePool[o.ValRe].re)
			case "enum":
				b = b.MatchingEnum(styleEnumPool[o.Enum]...)
			case "fn":
				b = b.MatchingHandler(styleFns[o.Fn].fn)
			}
		}
		switch o.Scope {
		case "els":
			b.OnElements(o.Names...)
		case "elre":
			b.OnElementsMatching(elRePool[o.ElRe])
		default:
			b.Globally()
		}
	case "AllowURLSchemesMatching":
		p.AllowURLSchemesMatching(schemeRePool[o.ValRe])
	case "SkipElementsContent":
		p.SkipElementsContent(o.Names...)
	case "AllowElementsContent":
		p.AllowElementsContent(o.Names...)
	case "AllowDataAttributes":
		p.AllowDataAttributes()
	case "AllowComments":
		p.AllowComments()
	case "AllowUnsafe":
		p.AllowUnsafe(o.B)
	case "AddSpaceWhenStrippingTag":
		p.AddSpaceWhenStrippingTag(o.B)
	case "RequireParseableURLs":
		p.RequireParseableURLs(o.B)
	case "AllowRelativeURLs":
		p.AllowRelativeURLs(o.B)
	case "AllowURLSchemes":
		p.AllowURLSchemes(o.Names...)
	case "AllowURLSchemeWithCustomPolicy":
		fn := urlFns[o.Fn].fn
		if log != nil {
			inner := fn
			fn = func(u *url.URL) bool {
				log.Calls++
				ok := inner(u)
				if ok {
					log.Approved[u.String()] = true
				}
				return ok
			}
		}
		p.AllowURLSchemeWithCustomPolicy(o.Names[0], fn)
	case "RewriteSrc":
		fn := rewriters[o.Fn].fn
		if log != nil {
			inner := fn
			fn = func(u *url.URL) {
				log.Calls++
				log.RewriteIn = append(log.RewriteIn, u.String())
				inner(u)
				log.Rewritten[u.String()] = true
			}
		}
		p.RewriteSrc(fn)
	case "RequireNoFollowOnLinks":
		p.RequireNoFollowOnLinks(o.B)
	case "RequireNoFollowOnFullyQualifiedLinks":
		p.RequireNoFollowOnFullyQualifiedLinks(o.B)
	case "RequireNoReferrerOnLinks":
		p.RequireNoReferrerOnLinks(o.B)
	case "RequireNoReferrerOnFullyQualifiedLinks":
		p.RequireNoReferrerOnFullyQualifiedLinks(o.B)
	case "AddTargetBlankToFullyQualifiedLinks":
		p.AddTargetBlankToFullyQualifiedLinks(o.B)
	case "RequireCrossOriginAnonymous":
		p.RequireCrossOriginAnonymous(o.B)
	case "RequireSandboxOnIFrame":
		p.RequireSandboxOnIFrame(sbv(o.Vals)...)
	case "AllowStandardURLs":
		p.AllowStandardURLs()
	case "AllowStandardAttributes":
		p.AllowStandardAttributes()
	case "AllowStyling":
		p.AllowStyling()
	case "AllowImages":
		p.AllowImages()
	case "AllowLists":
		p.AllowLists()
	case "AllowTables":
		p.AllowTables()
	case "AllowIFrames":
		p.AllowIFrames(sbv(o.Vals)...)
	case "AllowDataURIImages":
		p.AllowDataURIImages()
	case "noop":
	default:
		panic("unknown op " + o.Kind)
	}
}

// ---------------------------------------------------------------------------------------------
// Model: the harness's own reading of the documented builder semantics. It only answers
// membership questions; it never predicts output bytes.

type rule struct {
	re *regexp.Regexp
	vi int // index into valRePool, -1 when the rule has no pattern or comes from a helper table
}

type styleRule struct {
	prop  string
	kind  string // "", "re", "enum", "fn"
	re    *regexp.Regexp
	ri    int
	enum  []string
	fn    func(string) bool
	fname string
}

func (r styleRule) accepts(v string) bool {
	switch r.kind {
	case "enum":
		// v is the lower-cased value; an enumeration lists values, it does not fold U+017F into s
		for _, e := range r.enum {
			if strings.ToLower(e) == strings.ToLower(v) {
				return true
			}
		}
		return false
	case "re":
		return r.re.MatchString(v)
	case "fn":
		return r.fn(v)
	default:
		return css.GetDefaultHandler(r.prop)(v)
	}
}

const dataURIFn = 100 // the documented check of AllowDataURIImages

type Model struct {
	strict                                                         bool
	els                                                            map[string]bool
	elRes                                                          []*regexp.Regexp
	elAttrs                                                        map[string]map[string][]rule
	reAttrs                                                        map[*regexp.Regexp]map[string][]rule
	globAttrs                                                      map[string][]rule
	bare                                                           map[string]bool
	bareRes                                                        []*regexp.Regexp
	skip                                                           map[string]bool
	elStyles                                                       map[string]map[string][]styleRule
	reStyles                                                       map[*regexp.Regexp]map[string][]styleRule
	globStyles                                                     map[string][]styleRule
	dataAttrs                                                      bool
	comments                                                       bool
	unsafe                                                         bool // AllowUnsafe(true): only C09 and C12 generate it
	spaces                                                         bool
	parseURLs                                                      bool
	relative                                                       bool
	schemes                                                        map[string][]int // scheme -> custom check ids (empty = unconditional)
	schemeRes                                                      []*regexp.Regexp
	rewriter                                                       int
	noFollow, noFollowFQ, noRef, noRefFQ, targetBlank, crossOrigin bool
	sandbox                                                        map[string]bool
}

var defaultBare = strings.Fields(`abbr acronym address article aside audio b bdi blockquote body br button canvas caption center cite code col colgroup datalist dd del details dfn div dl dt em fieldset figcaption figure footer h1 h2 h3 h4 h5 h6 head header hgroup hr html i ins kbd li mark marquee nav ol optgroup option p picture pre q rp rt ruby s samp script section select small span strike strong style sub summary sup svg table tbody td textarea tfoot th thead title time tr tt u ul var video wbr`)
var defaultSkip = strings.Fields(`frame frameset iframe noembed noframes noscript nostyle object script style title`)
var sandboxNames = []string{"allow-downloads", "allow-downloads-without-user-activation", "allow-forms", "allow-modals", "allow-orientation-lock", "allow-pointer-lock", "allow-popups", "allow-popups-to-escape-sandbox", "allow-presentation", "allow-same-origin", "allow-scripts", "allow-storage-access-by-user-activation", "allow-top-navigation", "allow-top-navigation-by-user-activation"}

func newModel() *Model {
	m := &Model{els: map[string]bool{}, elAttrs: map[string]map[string][]rule{}, reAttrs: map[*regexp.Regexp]map[string][]rule{}, globAttrs: map[string][]rule{},
		bare: map[string]bool{}, skip: map[string]bool{}, schemes: map[string][]int{}, rewriter: -1,
		elStyles: map[string]map[string][]styleRule{}, reStyles: map[*regexp.Regexp]map[string][]styleRule{}, globStyles: map[string][]styleRule{}}
	for _, e := range defaultBare {
		m.bare[e] = true
	}
	for _, e := range defaultSkip {
		m.skip[e] = true
	}
	return m
}

func (m *Model) attrsOnEls(attrs []string, r rule, els ...string) {
	if len(attrs) == 0 {
		return // AllowAttrs() without names registers nothing (the element stays unknown)
	}
	for _, e := range els {
		e = strings.ToLower(e)
		m.els[e] = true
		if m.elAttrs[e] == nil {
			m.elAttrs[e] = map[string][]rule{}
		}
		for _, a := range attrs {
			a = strings.ToLower(a)
			m.elAttrs[e][a] = append(m.elAttrs[e][a], r)
		}
	}
}
func (m *Model) attrsGlobally(attrs []string, r rule) {
	for _, a := range attrs {
		a = strings.ToLower(a)
		m.globAttrs[a] = append(m.globAttrs[a], r)
	}
}
func (m *Model) elements(els ...string) {
	for _, e := range els {
		m.els[strings.ToLower(e)] = true
	}
}
func (m *Model) standardURLs() {
	m.parseURLs = true
	m.relative = true
	for _, s := range []string{"mailto", "http", "https"} {
		m.schemes[s] = nil
	}
	m.noFollow = true
}

var (
	reLang    = regexp.MustCompile(`[a-zA-Z]{2,20}`)
	reID      = regexp.MustCompile(`[a-zA-Z0-9\:\-_\.]+`)
	reScope   = regexp.MustCompile(`(?i)(?:row|col)(?:group)?`)
	reNowrap  = regexp.MustCompile(`(?i)|nowrap`)
	reOpen    = regexp.MustCompile(`(?i)^(|open)$`)
	reMapName = regexp.MustCompile(`^([\p{L}\p{N}_-]+)$`)
	reCoords  = regexp.MustCompile(`^([0-9]+,)+[0-9]+$`)
	reShape   = regexp.MustCompile(`(?i)^(default|circle|rect|poly)$`)
	reUsemap  = regexp.MustCompile(`(?i)^#[\p{L}\p{N}_-]+$`)
)

func hr(re *regexp.Regexp) rule { return rule{re: re, vi: -1} }

func (m *Model) standardAttributes() {
	m.attrsGlobally([]string{"dir"}, hr(bluemonday.Direction))
	m.attrsGlobally([]string{"lang"}, hr(reLang))
	m.attrsGlobally([]string{"id"}, hr(reID))
	m.attrsGlobally([]string{"title"}, hr(bluemonday.Paragraph))
}
func (m *Model) images() {
	m.attrsOnEls([]string{"align"}, hr(bluemonday.ImageAlign), "img")
	m.attrsOnEls([]string{"alt"}, hr(bluemonday.Paragraph), "img")
	m.attrsOnEls([]string{"height", "width"}, hr(bluemonday.NumberOrPercent), "img")
	m.standardURLs()
	m.attrsOnEls([]string{"src"}, hr(nil), "img")
}
func (m *Model) lists() {
	m.attrsOnEls([]string{"type"}, hr(bluemonday.ListType), "ol", "ul", "li")
	m.attrsOnEls([]string{"value"}, hr(bluemonday.Integer), "li")
	m.elements("dl", "dt", "dd")
}
func (m *Model) tables() {
	m.attrsOnEls([]string{"height", "width"}, hr(bluemonday.NumberOrPercent), "table", "col", "colgroup", "td", "th")
	m.attrsOnEls([]string{"summary"}, hr(bluemonday.Paragraph), "table")
	m.elements("caption")
	m.attrsOnEls([]string{"align"}, hr(bluemonday.CellAlign), "col", "colgroup", "thead", "tr", "td", "th", "tbody", "tfoot")
	m.attrsOnEls([]string{"span"}, hr(bluemonday.Integer), "col", "colgroup")
	m.attrsOnEls([]string{"valign"}, hr(bluemonday.CellVerticalAlign), "col", "colgroup", "thead", "tr", "td", "th", "tbody", "tfoot")
	m.attrsOnEls([]string{"abbr"}, hr(bluemonday.Paragraph), "td", "th")
	m.attrsOnEls([]string{"colspan", "rowspan"}, hr(bluemonday.Integer), "td", "th")
	m.attrsOnEls([]string{"headers"}, hr(bluemonday.SpaceSeparatedTokens), "td", "th")
	m.attrsOnEls([]string{"scope"}, hr(reScope), "td", "th")
	m.attrsOnEls([]string{"nowrap"}, hr(reNowrap), "td", "th")
}
func (m *Model) ugc() {
	m.standardAttributes()
	m.standardURLs()
	m.elements("article", "aside", "figure", "section", "summary", "h1", "h2", "h3", "h4", "h5", "h6", "hgroup", "br", "div", "hr", "p", "span", "wbr",
		"abbr", "acronym", "cite", "code", "dfn", "em", "figcaption", "mark", "s", "samp", "strong", "sub", "sup", "var", "b", "i", "pre", "small", "strike", "tt", "u", "rp", "rt", "ruby")
	m.attrsOnEls([]string{"open"}, hr(reOpen), "details")
	m.attrsOnEls([]string{"cite"}, hr(nil), "blockquote", "q")
	m.attrsOnEls([]string{"href"}, hr(nil), "a", "area")
	m.attrsOnEls([]string{"name"}, hr(reMapName), "map")
	m.attrsOnEls([]string{"alt"}, hr(bluemonday.Paragraph), "area")
	m.attrsOnEls([]string{"coords"}, hr(reCoords), "area")
	m.attrsOnEls([]string{"rel"}, hr(bluemonday.SpaceSeparatedTokens), "area")
	m.attrsOnEls([]string{"shape"}, hr(reShape), "area")
	m.attrsOnEls([]string{"usemap"}, hr(reUsemap), "img")
	m.attrsOnEls([]string{"datetime"}, hr(bluemonday.ISO8601), "time", "del", "ins")
	m.attrsOnEls([]string{"dir"}, hr(bluemonday.Direction), "bdi", "bdo")
	m.attrsOnEls([]string{"cite"}, hr(bluemonday.Paragraph), "del", "ins")
	m.lists()
	m.tables()
	m.attrsOnEls([]string{"value", "min", "max", "low", "high", "optimum"}, hr(bluemonday.Number), "meter")
	m.attrsOnEls([]string{"value", "max"}, hr(bluemonday.Number), "progress")
	m.images()
}

func (m *Model) addStyles(o Op) {
	for _, prop := range o.Attrs {
		prop = strings.ToLower(prop)
		sr := styleRule{prop: prop, kind: o.Match, ri: -1}
		switch o.Match {
		case "re":
			sr.re, sr.ri = styleRePool[o.ValRe].re, o.ValRe
		case "enum":
			sr.enum = styleEnumPool[o.Enum]
		case "fn":
			sr.fn, sr.fname = styleFns[o.Fn].fn, styleFns[o.Fn].name
		}
		switch o.Scope {
		case "els":
			for _, e := range o.Names {
				e = strings.ToLower(e)
				if m.elStyles[e] == nil {
					m.elStyles[e] = map[string][]styleRule{}
				}
				m.elStyles[e][prop] = append(m.elStyles[e][prop], sr)
			}
		case "elre":
			re := elRePool[o.ElRe]
			if m.reStyles[re] == nil {
				m.reStyles[re] = map[string][]styleRule{}
			}
			m.reStyles[re][prop] = append(m.reStyles[re][prop], sr)
		default:
			m.globStyles[prop] = append(m.globStyles[prop], sr)
		}
	}
}

func BuildModel(s *Spec) *Model {
	m := newModel()
	switch s.Base {
	case "UGC":
		m.ugc()
	case "Strict":
		m.strict = true
	case "Zero":
		m.bare = map[string]bool{}
		m.skip = map[string]bool{}
	}
	for _, o := range s.Ops {
		m.apply(o)
	}
	return m
}

func (m *Model) apply(o Op) {
	r := rule{vi: -1}
	if o.Kind == "AllowAttrs" && o.ValRe >= 0 {
		r = rule{re: valRePool[o.ValRe].re, vi: o.ValRe}
	}
	switch o.Kind {
	case "AllowElements":
		m.elements(o.Names...)
	case "AllowElementsMatching":
		m.elRes = append(m.elRes, elRePool[o.ElRe])
	case "AllowAttrs":
		switch o.Scope {
		case "els":
			m.attrsOnEls(o.Attrs, r, o.Names...)
			if o.NoAttr {
				for _, e := range o.Names {
					m.bare[strings.ToLower(e)] = true
					m.els[strings.ToLower(e)] = true
				}
			}
		case "elre":
			re := elRePool[o.ElRe]
			if len(o.Attrs) == 0 && !o.NoAttr {
				break // nothing registered
			}
			m.elRes = append(m.elRes, re)
			if m.reAttrs[re] == nil {
				m.reAttrs[re] = map[string][]rule{}
			}
			for _, a := range o.Attrs {
				a = strings.ToLower(a)
				m.reAttrs[re][a] = append(m.reAttrs[re][a], r)
			}
			if o.NoAttr {
				m.bareRes = append(m.bareRes, re)
			}
		default:
			m.attrsGlobally(o.Attrs, r)
		}
	case "AllowNoAttrs":
		if o.Scope == "els" {
			for _, e := range o.Names {
				m.bare[strings.ToLower(e)] = true
				m.els[strings.ToLower(e)] = true
			}
		} else {
			m.bareRes = append(m.bareRes, elRePool[o.ElRe])
			m.elRes = append(m.elRes, elRePool[o.ElRe])
		}
	case "AllowStyles":
		m.addStyles(o)
	case "AllowURLSchemesMatching":
		m.schemeRes = append(m.schemeRes, schemeRePool[o.ValRe])
	case "SkipElementsContent":
		for _, e := range o.Names {
			m.skip[strings.ToLower(e)] = true
		}
	case "AllowElementsContent":
		for _, e := range o.Names {
			delete(m.skip, strings.ToLower(e))
		}
	case "AllowDataAttributes":
		m.dataAttrs = true
	case "AllowComments":
		m.comments = true
	case "AllowUnsafe":
		m.unsafe = o.B
	case "AddSpaceWhenStrippingTag":
		m.spaces = o.B
	case "RequireParseableURLs":
		m.parseURLs = o.B
	case "AllowRelativeURLs":
		m.parseURLs = true
		m.relative = o.B
	case "AllowURLSchemes":
		m.parseURLs = true
		for _, sc := range o.Names {
			m.schemes[strings.ToLower(sc)] = nil
		}
	case "AllowURLSchemeWithCustomPolicy":
		m.parseURLs = true
		sc := strings.ToLower(o.Names[0])
		m.schemes[sc] = append(m.schemes[sc], o.Fn)
	case "RewriteSrc":
		m.rewriter = o.Fn
	case "RequireNoFollowOnLinks":
		m.noFollow, m.parseURLs = o.B, true
	case "RequireNoFollowOnFullyQualifiedLinks":
		m.noFollowFQ, m.parseURLs = o.B, true
	case "RequireNoReferrerOnLinks":
		m.noRef, m.parseURLs = o.B, true
	case "RequireNoReferrerOnFullyQualifiedLinks":
		m.noRefFQ, m.parseURLs = o.B, true
	case "AddTargetBlankToFullyQualifiedLinks":
		m.targetBlank, m.parseURLs = o.B, true
	case "RequireCrossOriginAnonymous":
		m.crossOrigin = o.B
	case "RequireSandboxOnIFrame", "AllowIFrames":
		if o.Kind == "AllowIFrames" {
			m.attrsOnEls([]string{"sandbox"}, rule{vi: -1}, "iframe")
		}
		m.sandbox = map[string]bool{}
		for _, v := range o.Vals {
			m.sandbox[sandboxNames[v]] = true
		}
	case "AllowStandardURLs":
		m.standardURLs()
	case "AllowStandardAttributes":
		m.standardAttributes()
	case "AllowStyling":
		m.attrsGlobally([]string{"class"}, hr(bluemonday.SpaceSeparatedTokens))
	case "AllowImages":
		m.images()
	case "AllowLists":
		m.lists()
	case "AllowTables":
		m.tables()
	case "AllowDataURIImages":
		m.parseURLs = true
		m.schemes["data"] = append(m.schemes["data"], dataURIFn)
	}
}

// ElementAllowed: explicitly named or matching any element pattern; never script/style
// (AllowUnsafe is never generated).
func (m *Model) ElementAllowed(name string) bool {
	if name == "script" || name == "style" {
		return false
	}
	if m.els[name] {
		return true
	}
	for _, re := range m.elRes {
		if re.MatchString(name) {
			return true
		}
	}
	return false
}

func (m *Model) MatchesPattern(name string) bool {
	for _, re := range m.elRes {
		if re.MatchString(name) {
			return true
		}
	}
	return false
}

func (m *Model) MayBeBare(name string) bool {
	if m.bare[name] {
		return true
	}
	for _, re := range m.bareRes {
		if re.MatchString(name) {
			return true
		}
	}
	return false
}

func okRules(rs []rule, v string) bool {
	for _, r := range rs {
		if r.re == nil || r.re.MatchString(v) {
			return true
		}
	}
	return false
}

// AttrAllowed is the union reading (explicit ∪ pattern ∪ global): the weaker, sound
// reading for the safety direction.
func (m *Model) AttrAllowed(el, k, v string) bool {
	if okRules(m.elAttrs[el][k], v) || okRules(m.globAttrs[k], v) {
		return true
	}
	for re, attrs := range m.reAttrs {
		if re.MatchString(el) && okRules(attrs[k], v) {
			return true
		}
	}
	return false
}

// rulesFor returns the rules that the documented semantics apply to attribute k on
// element el for the completeness direction: an explicitly named element shadows
// patterns (README), global rules always apply.
func (m *Model) rulesFor(el, k string) []rule {
	var out []rule
	if m.els[el] {
		out = append(out, m.elAttrs[el][k]...)
	} else {
		res := make([]*regexp.Regexp, 0, len(m.reAttrs))
		for re := range m.reAttrs {
			res = append(res, re)
		}
		sort.Slice(res, func(i, j int) bool { return res[i].String() < res[j].String() })
		for _, re := range res {
			if re.MatchString(el) {
				out = append(out, m.reAttrs[re][k]...)
			}
		}
	}
	return append(out, m.globAttrs[k]...)
}

// StyleRulesFor returns every style rule that may govern prop on el (union reading).
func (m *Model) StyleRulesFor(el, prop string) []styleRule {
	var out []styleRule
	out = append(out, m.elStyles[el][prop]...)
	for re, ps := range m.reStyles {
		if re.MatchString(el) {
			out = append(out, ps[prop]...)
		}
	}
	return append(out, m.globStyles[prop]...)
}

// HasStyleRules: do style rules govern the style attribute of el?
func (m *Model) HasStyleRules(el string) bool {
	if len(m.globStyles) > 0 || len(m.elStyles[el]) > 0 {
		return true
	}
	for re, ps := range m.reStyles {
		if len(ps) > 0 && re.MatchString(el) {
			return true
		}
	}
	return false
}

func (m *Model) linkOptions() bool {
	return m.noFollow || m.noFollowFQ || m.noRef || m.noRefFQ || m.targetBlank
}

// SchemeAllowed says whether scheme is on the allowlist and which custom checks guard it.
func (m *Model) SchemeAllowed(scheme string) (allowed bool, custom []int) {
	if fns, ok := m.schemes[scheme]; ok {
		return true, fns
	}
	for _, re := range m.schemeRes {
		if re.MatchString(scheme) {
			return true, nil
		}
	}
	return false, nil
}

var dataURIImagePrefixRe = regexp.MustCompile(`^image/(gif|jpeg|png|svg\+xml|webp);base64,`)

// dataURIImageOK restates the documented check of AllowDataURIImages on the raw value.
func dataURIImageOK(u *url.URL) bool {
	if u.RawQuery != "" || u.Fragment != "" {
		return false
	}
	pfx := dataURIImagePrefixRe.FindString(u.Opaque)
	if pfx == "" {
		return false
	}
	_, err := base64.StdEncoding.DecodeString(u.Opaque[len(pfx):])
	return err == nil
}

func (m *Model) vocabulary() (els, attrs []string) {
	for e := range m.els {
		els = append(els, e)
	}
	for e := range m.elAttrs {
		for a := range m.elAttrs[e] {
			attrs = append(attrs, a)
		}
	}
	for a := range m.globAttrs {
		attrs = append(attrs, a)
	}
	for _, as := range m.reAttrs {
		for a := range as {
			attrs = append(attrs, a)
		}
	}
	sort.Strings(els)
	sort.Strings(attrs)
	return
}

func (m *Model) styleVocabulary() []string {
	set := map[string]bool{}
	for _, ps := range m.elStyles {
		for p := range ps {
			set[p] = true
		}
	}
	for _, ps := range m.reStyles {
		for p := range ps {
			set[p] = true
		}
	}
	for p := range m.globStyles {
		set[p] = true
	}
	out := make([]string, 0, len(set))
	for p := range set {
		out = append(out, p)
	}
	sort.Strings(out)
	return out
}
