package props

import (
	"regexp"
	"sort"
	"strings"
	"sync/atomic"

	"github.com/microcosm-cc/bluemonday"
	"golang.org/x/net/html"
	"pgregory.net/rapid"
)

// C04 — shipped policies are safe: Strict strips all markup, UGC emits inert vocabulary.
// C20 — re-sanitising sanitised output is a no-op.

var wholeHTMLVocabulary = strings.Fields(`a abbr acronym address applet area article aside audio b base basefont bdi bdo bgsound big blink blockquote body br button canvas caption center cite code col colgroup
 command content data datalist dd del details dfn dialog dir div dl dt element em embed fieldset figcaption figure font footer form frame frameset h1 h2 h3 h4 h5 h6 head header hgroup hr html i iframe image img
 input ins isindex kbd keygen label legend li link listing main map mark marquee math menu menuitem meta meter multicol nav nextid nobr noembed noframes noscript object ol optgroup option output p param
 picture plaintext pre progress q rb rp rt rtc ruby s samp script section select shadow slot small source spacer span strike strong style sub summary sup svg table tbody td template textarea tfoot th thead
 time title tr track tt u ul var video wbr xmp mi mo mn ms mtext annotation-xml foreignobject desc animate set use g path circle`)

var ugcForbiddenEls = map[string]bool{"script": true, "style": true, "iframe": true, "object": true, "embed": true, "form": true, "input": true, "button": true, "select": true, "option": true, "textarea": true,
	"base": true, "meta": true, "link": true, "applet": true, "frame": true, "frameset": true, "optgroup": true, "keygen": true, "isindex": true, "output": true, "datalist": true, "fieldset": true}

var ugcModel = BuildModel(&Spec{Base: "UGC"})

var hostileAttrNames = []string{"onclick", "onerror", "onload", "onmouseover", "ONCLICK", "style", "formaction", "action", "srcdoc", "xlink:href", "background", "dynsrc", "lowsrc", "ping", "poster", "data", "codebase", "http-equiv", "content"}

func genC04(t *rapid.T) *Case {
	c := &Case{Spec: &Spec{Base: "UGC"}}
	switch rapid.IntRange(0, 9).Draw(t, "c04kind") {
	case 0, 1:
		c.Kind = "strict"
		c.Spec = &Spec{Base: "Strict"}
	case 2, 3, 4:
		c.Kind = "ugc-complete"
		doc, _, _, ok := genConform(t, ugcModel)
		if !ok {
			doc = "<p>x</p>"
		}
		c.Input = BStr(doc)
		return c
	default:
		c.Kind = "ugc-safety"
	}
	so := &soupOpts{els: wholeHTMLVocabulary, attrs: hostileAttrNames, maxFrags: 16}
	switch rapid.IntRange(0, 6).Draw(t, "inputKind") {
	case 6:
		c.Input = BStr(genCorpusMutation(t))
	case 0:
		c.Input = BStr(genTree(t, ugcModel, &treeOpts{extraEls: wholeHTMLVocabulary}))
	case 1:
		// XSS cheat-sheet families: splitting, encoded schemes, raw-text and foreign-content confusion
		c.Input = BStr(rapid.SampledFrom(xssSeeds).Draw(t, "xss") + genSoup(t, ugcModel, so))
	default:
		c.Input = BStr(genSoup(t, ugcModel, so))
	}
	return c
}

var xssSeeds = []string{
	`<IMG SRC="javascript:alert('XSS');">`, `<IMG SRC=JaVaScRiPt:alert('XSS')>`, `<IMG SRC=` + "`javascript:alert(\"RSnake says, 'XSS'\")`" + `>`, `<IMG """><SCRIPT>alert("XSS")</SCRIPT>">`,
	`<IMG SRC=&#106;&#97;&#118;&#97;&#115;&#99;&#114;&#105;&#112;&#116;&#58;&#97;&#108;&#101;&#114;&#116;&#40;&#39;&#88;&#83;&#83;&#39;&#41;>`, `<IMG SRC="jav&#x09;ascript:alert('XSS');">`,
	`<IMG SRC=" &#14;  javascript:alert('XSS');">`, `<SCRIPT/XSS SRC="http://ha.ckers.org/xss.js"></SCRIPT>`, `<BODY onload!#$%&()*~+-_.,:;?@[/|\]^` + "`" + `=alert("XSS")>`, `<<SCRIPT>alert("XSS");//<</SCRIPT>`,
	`<IMG SRC="javascript:alert('XSS')"`, `<iframe src=http://ha.ckers.org/scriptlet.html <`, `</TITLE><SCRIPT>alert("XSS");</SCRIPT>`, `<INPUT TYPE="IMAGE" SRC="javascript:alert('XSS');">`,
	`<svg><style><img src=x onerror=alert(1)></style></svg>`, `<math><mtext><table><mglyph><style><img src=x onerror=alert(1)>`, `<noscript><p title="</noscript><img src=x onerror=alert(1)>">`,
	`<svg></p><style><a id="</style><img src=1 onerror=alert(1)>">`, `<form><math><mtext></form><form><mglyph><style></math><img src onerror=alert(1)>`, `<a href="jav&#x0A;ascript:alert(1)">x</a>`,
	`<a href="&#x6A;avascript:alert(1)">x</a>`, `<a href="data:text/html;base64,PHNjcmlwdD5hbGVydCgxKTwvc2NyaXB0Pg==">x</a>`, `<p style="x:expression(alert(1))">`, `<div style="background:url(javascript:alert(1))">`,
	`<img src=x:alert(1) onerror=eval(src)>`, `<table background="javascript:alert(1)">`, `<a href="//evil.com" target=_blank>x</a>`, `<xmp><img src=x onerror=alert(1)></xmp>`, `<listing><img src=x onerror=alert(1)></listing>`,
	`<textarea><img src=x onerror=alert(1)></textarea>`, `<title><img src=x onerror=alert(1)></title>`, `<![CDATA[<img src=x onerror=alert(1)>]]>`, `<?xml-stylesheet href="javascript:alert(1)"?>`, `<!--[if gte IE 4]><SCRIPT>alert('XSS');</SCRIPT><![endif]-->`,
	`<img src="x` + "`" + ` ` + "`" + `<script>alert(1)</script>"` + "`" + ` ` + "`" + `>`, `<a href="java\0script:alert(1)">`, "<a href=\"java\x00script:alert(1)\">x</a>", `<img/src="x"/onerror=alert(1)>`, `<svg/onload=alert(1)>`,
	`<image src="javascript:alert(1)">`, `<IMAGE SRC=JaVaScRiPt:alert(1) alt=x>`, `<svg><image href="javascript:alert(1)" /></svg>`, `<image src="data:text/html,x" width=1>`,
	`<details open ontoggle=alert(1)>`, `<a href=javascript&colon;alert(1)>x</a>`, `<a href="vbscript:msgbox(1)">x</a>`, `<img usemap="javascript:alert(1)">`, `<del cite="javascript:alert(1)">x</del>`, `<q cite="  javascript:alert(1)">x</q>`,
}

func attrKey(a html.Attribute) string {
	if a.Namespace != "" {
		return a.Namespace + ":" + a.Key
	}
	return a.Key
}

// antagonise builds other instances of the shipped policies and extends them heavily, the way
// README-style callers do. A freshly constructed shipped policy must not be affected.
func antagonise() {
	q := bluemonday.UGCPolicy()
	q.AllowAttrs("style", "onclick", "onerror", "formaction").OnElements("p", "span", "div", "b", "i", "h1", "li", "td", "a", "img")
	q.AllowAttrs("style", "onload").Globally()
	q.AllowElements("script", "style", "iframe", "object", "embed", "form", "input", "base", "meta", "link")
	q.AllowAttrs("src", "href", "action").OnElements("iframe", "embed", "form", "base", "link", "script")
	q.AllowURLSchemes("javascript", "data", "vbscript")
	q.AllowElementsContent("script", "style", "iframe", "object", "title")
	q.AllowNoAttrs().OnElements("a", "img", "iframe", "form")
	q.AllowStyles("color", "background").Globally()
	q.AllowDataAttributes()
	q.AllowComments()
	q.AllowElementsMatching(regexp.MustCompile(`.*`))
	q.RequireParseableURLs(false)
	q.RequireNoFollowOnLinks(false)
	q.Sanitize(`<p style="x" onclick="y"><a>z</a><script>1</script><iframe src="javascript:1"></iframe><!-- c -->`)
	s := bluemonday.StrictPolicy()
	s.AllowElements("b", "script", "p")
	s.AllowAttrs("onclick").Globally()
	s.AllowComments()
	s.Sanitize(`<b onclick="x">y</b><!-- c -->`)
}

var antagoniseCount atomic.Int64

func checkC04(c *Case, r *Rec) error {
	if antagoniseCount.Add(1)%40 == 1 {
		antagonise()
	}
	in := string(c.Input)
	switch c.Kind {
	case "strict":
		out := bluemonday.StrictPolicy().Sanitize(in)
		if strings.ContainsAny(out, "<>") {
			return violation(out, "C04(strict): StrictPolicy output contains '<' or '>'")
		}
		for _, t := range tokenize(out) {
			if t.Type != html.TextToken {
				return violation(out, "C04(strict): StrictPolicy output contains a %v token", t.Type)
			}
		}
		r.Class("strict")
		hasMarkup := false
		for _, t := range tokenize(in) {
			if t.Type != html.TextToken {
				hasMarkup = true
			}
		}
		if hasMarkup && out != "" {
			r.NonTrivial("strict\x00"+in, func() any {
				return map[string]any{"policy": "StrictPolicy()", "input": q(trunc(in, 300)), "output": q(trunc(out, 300))}
			})
		}
		return nil
	case "ugc-complete", "ugc-complete-strict-replay":
		out := bluemonday.UGCPolicy().Sanitize(in)
		affected, err := sameModuloForced(ugcModel, in, out)
		if err != nil && !strings.HasSuffix(c.Kind, "strict-replay") && hasEmptyFragmentURL(in) && knownClassEnabled("C04", "url_with_empty_fragment") {
			r.Excluded("url_with_empty_fragment")
			return nil
		}
		if err != nil {
			return violation(out, "C04(complete): %v", err)
		}
		if !affected && out != in {
			return violation(out, "C04(complete): a document in the UGC vocabulary without links is not returned byte for byte")
		}
		// the only permitted difference: rel="nofollow" added to a/area with href
		it, ot := tokenize(in), tokenize(out)
		for i := range it {
			if !isOpenTag(it[i]) {
				continue
			}
			_, hasHref := firstAttr(it[i].Attr, "href")
			irel, _ := firstAttr(it[i].Attr, "rel")
			orel, _ := firstAttr(ot[i].Attr, "rel")
			if (it[i].Name == "a" || it[i].Name == "area") && hasHref {
				want := strings.TrimSpace(irel + " nofollow")
				if hasTok(irel, "nofollow") {
					want = irel
				}
				if orel != want {
					return violation(out, "C04(complete): <%s href> has rel=%s, expected %s", it[i].Name, q(orel), q(want))
				}
			} else if orel != irel {
				return violation(out, "C04(complete): rel changed from %s to %s on <%s> without href", q(irel), q(orel), it[i].Name)
			}
		}
		r.Class("ugc_complete")
		els, nattr := map[string]bool{}, 0
		for _, t := range it {
			if isOpenTag(t) {
				els[t.Name] = true
				nattr += len(t.Attr)
			}
		}
		if len(els) >= 3 && nattr >= 2 {
			r.NonTrivial("complete\x00"+in, func() any {
				return map[string]any{"policy": "UGCPolicy()", "conforming_document": q(trunc(in, 400)), "byte_identical": out == in}
			})
		}
		return nil
	}
	// ugc-safety
	out := bluemonday.UGCPolicy().Sanitize(in)
	m := ugcModel
	nElems := 0
	err := forEachDOM(out, func(ctx string, scripting bool, x *html.Node) error {
		switch x.Type {
		case html.CommentNode:
			return violation(out, "C04(ugc): comment node in the DOM built inside <%s>", ctx)
		case html.DoctypeNode:
			return violation(out, "C04(ugc): doctype node")
		case html.ElementNode:
		default:
			return nil
		}
		name := asciiLower(x.Data)
		nElems++
		if ugcForbiddenEls[name] {
			return violation(out, "C04(ugc): <%s> element in the DOM built inside <%s>", name, ctx)
		}
		if !m.els[name] && !synth[name] {
			return violation(out, "C04(ugc): element <%s> in the DOM built inside <%s> is not in the documented UGC vocabulary", name, ctx)
		}
		for _, a := range x.Attr {
			k := asciiLower(attrKey(a))
			if strings.HasPrefix(k, "on") {
				return violation(out, "C04(ugc): event handler attribute %s on <%s>", k, name)
			}
			if k == "style" {
				return violation(out, "C04(ugc): style attribute on <%s>", name)
			}
			_, elOK := m.elAttrs[name][k]
			_, globOK := m.globAttrs[k]
			forced := k == "rel" && (name == "a" || name == "area")
			if !elOK && !globOK && !forced {
				return violation(out, "C04(ugc): attribute %s on <%s> is not in the documented UGC vocabulary", k, name)
			}
			if k == "href" || k == "src" || (k == "cite" && urlPos[name] == "cite") {
				sch, abs := schemeOf(a.Val)
				if abs && sch != "http" && sch != "https" && sch != "mailto" {
					return violation(out, "C04(ugc): %s=%s on <%s> has scheme %s", k, q(a.Val), name, sch)
				}
			}
			if !forced && !m.AttrAllowed(name, k, a.Val) {
				return violation(out, "C04(ugc): value %s of %s on <%s> is not accepted by the documented pattern", q(a.Val), k, name)
			}
		}
		return nil
	})
	if err != nil {
		return err
	}
	r.Class("ugc_safety")
	outside := false
	for _, t := range tokenize(in) {
		if (isTag(t) && !m.els[t.Name]) || t.Type == html.CommentToken || t.Type == html.DoctypeToken {
			outside = true
		}
		if isOpenTag(t) {
			for _, a := range t.Attr {
				if _, ok := m.elAttrs[t.Name][a.Key]; !ok {
					if _, ok := m.globAttrs[a.Key]; !ok {
						outside = true
					}
				}
			}
		}
	}
	if outside && nElems > 0 && strings.Contains(out, "<") {
		r.NonTrivial("ugc\x00"+in, func() any {
			return map[string]any{"policy": "UGCPolicy()", "input": q(trunc(in, 300)), "output": q(trunc(out, 300))}
		})
	}
	return nil
}

// ---------------------------------------------------------------------------------------------
// C20

var rewrittenAttrKeys = map[string]bool{"href": true, "cite": true, "src": true, "rel": true, "target": true, "crossorigin": true, "sandbox": true}

// sameModuloAttrOrder: identical token streams except for the order of attributes inside tags.
func sameModuloAttrOrder(a, b string) bool {
	ta, tb := tokenize(a), tokenize(b)
	if len(ta) != len(tb) {
		return false
	}
	for i := range ta {
		if ta[i].Type != tb[i].Type || ta[i].Name != tb[i].Name || len(ta[i].Attr) != len(tb[i].Attr) || len(ta[i].Raw) != len(tb[i].Raw) {
			return false
		}
		if !isTag(ta[i]) && ta[i].Raw != tb[i].Raw {
			return false // text, comments: byte for byte (the tokenizer's CR/LF normalisation must not hide a difference)
		}
		x, y := []string{}, []string{}
		for j := range ta[i].Attr {
			x = append(x, ta[i].Attr[j].Key+"\x00"+ta[i].Attr[j].Val)
			y = append(y, tb[i].Attr[j].Key+"\x00"+tb[i].Attr[j].Val)
		}
		sort.Strings(x)
		sort.Strings(y)
		for j := range x {
			if x[j] != y[j] {
				return false
			}
		}
	}
	return true
}

// movedAttrs lists, for two serialisations that are equal modulo attribute order, one entry per tag
// whose attributes stand at different positions: element name and the keys concerned
// ("a:rel,target").
func movedAttrs(a, b string) []string {
	ta, tb := tokenize(a), tokenize(b)
	var out []string
	for i := range ta {
		if !isTag(ta[i]) {
			continue
		}
		keys := map[string]bool{}
		for j := range ta[i].Attr {
			if ta[i].Attr[j].Key != tb[i].Attr[j].Key || ta[i].Attr[j].Val != tb[i].Attr[j].Val {
				keys[ta[i].Attr[j].Key] = true
			}
		}
		if len(keys) > 0 {
			out = append(out, ta[i].Name+":"+strings.Join(sortedKeys(keys), ","))
		}
	}
	return out
}

func inC20Class(m *Model) bool {
	if allowsRawText(m) || m.comments || m.rewriter >= 0 {
		return false
	}
	bad := func(rs map[string][]rule) bool {
		for k, l := range rs {
			if rewrittenAttrKeys[k] {
				for _, r := range l {
					if r.re != nil {
						return true
					}
				}
			}
		}
		return false
	}
	if bad(m.globAttrs) {
		return false
	}
	for _, rs := range m.elAttrs {
		if bad(rs) {
			return false
		}
	}
	for _, rs := range m.reAttrs {
		if bad(rs) {
			return false
		}
	}
	return true
}

func genC20(t *rapid.T) *Case {
	c := &Case{}
	switch rapid.IntRange(0, 5).Draw(t, "c20base") {
	case 0:
		c.Spec = &Spec{Base: "Strict"}
	case 1, 2:
		c.Spec = &Spec{Base: "UGC"}
	default:
		// New-based spec built op by op, dropping ops that leave the class (construction)
		kinds := append([]string{}, defaultOpKinds...)
		kinds = append(kinds, "RequireCrossOriginAnonymous", "RequireCrossOriginAnonymous", "AllowImages", "AllowImages", "AllowIFrames", "RequireSandboxOnIFrame", "AllowStandardURLs", "AllowTables", "AllowLists")
		spec := genSpec(t, &SpecOpts{Bases: []string{"New"}, Kinds: kinds})
		kept := &Spec{Base: "New"}
		dropped := 0
		for _, op := range spec.Ops {
			kept.Ops = append(kept.Ops, op)
			if !inC20Class(BuildModel(kept)) {
				kept.Ops = kept.Ops[:len(kept.Ops)-1]
				dropped++
			}
		}
		c.Spec = kept
		c.Ints = []int{dropped}
	}
	m := BuildModel(c.Spec)
	if c.Spec.Base != "Strict" && rapid.IntRange(0, 4).Draw(t, "linkFocus") == 0 {
		// link-focused: rel/href/target allowed without patterns, some link options, hostile rel values
		if c.Spec.Base == "New" {
			attrs := []string{"href"}
			for _, a := range []string{"rel", "target", "id"} {
				if rapid.IntRange(0, 2).Draw(t, "allow_"+a) != 0 {
					attrs = append(attrs, a)
				}
			}
			if rapid.IntRange(0, 3).Draw(t, "crossorigin") == 0 {
				// link gets two forced attributes: rel and crossorigin
				if rapid.Bool().Draw(t, "allow_crossorigin") {
					attrs = append(attrs, "crossorigin")
				}
				c.Spec.Ops = append(c.Spec.Ops, Op{Kind: "RequireCrossOriginAnonymous", B: true, ValRe: -1})
			}
			c.Spec.Ops = append(c.Spec.Ops, Op{Kind: "AllowAttrs", Attrs: attrs, Scope: "els", Names: []string{"a", "area", "link"}, ValRe: -1},
				Op{Kind: "AllowStandardURLs", ValRe: -1})
			for _, k := range []string{"RequireNoReferrerOnLinks", "AddTargetBlankToFullyQualifiedLinks", "RequireNoFollowOnFullyQualifiedLinks"} {
				if rapid.Bool().Draw(t, k) {
					c.Spec.Ops = append(c.Spec.Ops, Op{Kind: k, B: true, ValRe: -1})
				}
			}
		}
		c.Input = BStr(genLinkElements(t))
		return c
	}
	if c.Spec.Base == "New" && rapid.IntRange(0, 9).Draw(t, "urlFocus") == 0 {
		// URL-focused: URL attributes without patterns, a handful of schemes allowed plainly (data
		// among them, with or without the validating helper), values in every spelling of scheme,
		// surrounding and embedded white space: normalisation must reach its fixed point in one pass
		c.Spec.Ops = append(c.Spec.Ops, Op{Kind: "AllowAttrs", Attrs: []string{"src", "href", "alt"}, Scope: "els", Names: []string{"img", "a"}, ValRe: -1},
			Op{Kind: "AllowURLSchemes", Names: subset(t, []string{"data", "data", "https", "http", "mailto", "x-app"}, 1, 3, "ufScheme"), ValRe: -1})
		if rapid.IntRange(0, 3).Draw(t, "ufHelper") == 0 {
			c.Spec.Ops = append(c.Spec.Ops, Op{Kind: "AllowDataURIImages", ValRe: -1})
		}
		if rapid.Bool().Draw(t, "ufRel") {
			c.Spec.Ops = append(c.Spec.Ops, Op{Kind: "AllowRelativeURLs", B: true, ValRe: -1})
		}
		var sb strings.Builder
		for i := rapid.IntRange(1, 3).Draw(t, "nurl"); i > 0; i-- {
			sch := rapid.SampledFrom([]string{"data:", "DATA:", "Data:", "https:", "HTTPS:", "x-app:", "X-App:", "mailto:", ""}).Draw(t, "ufs")
			rest := rapid.SampledFrom([]string{"image/png;base64,iVBORw0KGgoAAAAN", "image/png;base64,iVBORw0K GgoAAAAN", "image/png;base64,iVBORw0K\nGgoAAAAN", "image/png;base64,iVBO\r\n  Rw0K\tGgo=",
				"image/gif;BASE64,R0lG ODlh", "text/plain,a b", "//example.com/a b", "//EXAMPLE.com/%7Euser", "//example.com/\u00e9?q=\u00fc#\u00e4", "a@b.c", "/p/../q", "image/png;base64, iVBO", ";base64,QQ== ", "a@b.c\u00a0#", "+123456\u3000#", "//example.com/p\u2003#"}).Draw(t, "ufr")
			pad := rapid.SampledFrom([]string{"", "", " ", "\n", "\t"}).Draw(t, "ufpad")
			v := pad + sch + rest + rapid.SampledFrom([]string{"", "", " "}).Draw(t, "ufpad2")
			if rapid.Bool().Draw(t, "ufImg") {
				sb.WriteString(`<img alt="x" ` + quotedAttr("src", v) + ">")
			} else {
				sb.WriteString("<a " + quotedAttr("href", v) + ">t</a>")
			}
		}
		c.Input = BStr(sb.String())
		c.Kind = "url-focus"
		return c
	}
	if c.Spec.Base != "Strict" && rapid.IntRange(0, 4).Draw(t, "styleFocus") == 0 {
		// style-focused: the style attribute allowed, a few style rules with any kind of matcher
		// (style matchers are not among the patterns the class excludes), values with escapes,
		// !important, comments and malformed tails
		c.Spec.Ops = append(c.Spec.Ops, Op{Kind: "AllowElements", Names: []string{"span", "div"}, ValRe: -1},
			Op{Kind: "AllowAttrs", Attrs: []string{"style", "id"}, Scope: "global", ValRe: -1})
		for i := rapid.IntRange(1, 3).Draw(t, "nstyleops"); i > 0; i-- {
			c.Spec.Ops = append(c.Spec.Ops, genOp(t, "AllowStyles", &SpecOpts{StPool: []string{"color", "width", "font-family", "text-align", "x-any", "margin", "background"}}))
		}
		sm := BuildModel(c.Spec)
		var sb strings.Builder
		for i := rapid.IntRange(1, 3).Draw(t, "nstyled"); i > 0; i-- {
			el := rapid.SampledFrom([]string{"span", "div", "p", "b"}).Draw(t, "sel")
			st := genStyleFrom(t, append(sm.styleVocabulary(), "color", "COLOR", "-webkit-color"))
			if rapid.IntRange(0, 4).Draw(t, "dupDecl") == 0 {
				// the first declaration once more at the end, one of the two marked !important
				first := st
				if i := strings.Index(st, ";"); i >= 0 {
					first = st[:i]
				}
				if rapid.Bool().Draw(t, "impFirst") {
					st = first + " !important;" + st[len(first):] + ";" + first
				} else {
					st = st + ";" + first + " !important"
				}
			}
			sb.WriteString("<" + el + ` style="` + escAttr(st, '"') + `">t</` + el + ">")
		}
		c.Input = BStr(sb.String())
		c.Kind = "style-focus"
		return c
	}
	switch rapid.IntRange(0, 8).Draw(t, "inputKind") {
	case 8:
		// media elements whose only attributes are URLs (good and bad) and forced attributes
		var sb strings.Builder
		for i := rapid.IntRange(1, 4).Draw(t, "nmedia"); i > 0; i-- {
			el := rapid.SampledFrom([]string{"img", "audio", "video", "link", "iframe", "a", "source"}).Draw(t, "mel")
			sb.WriteString("<" + el + " " + urlPos[el] + `="` + escAttr(rapid.SampledFrom(urlVals).Draw(t, "murl"), '"') + `"`)
			if rapid.IntRange(0, 2).Draw(t, "mextra") == 0 {
				sb.WriteString(" " + rapid.SampledFrom([]string{`crossorigin="use-credentials"`, `sandbox="allow-scripts x"`, `alt="a"`, `rel="x"`, `target="_blank"`}).Draw(t, "mattr"))
			}
			sb.WriteString(">t")
		}
		c.Input = BStr(sb.String())
	case 7:
		// a long run of characters that grow when escaped: the first pass's output is much larger
		unit := rapid.SampledFrom([]string{`"`, `&`, `'`, `<`, `&amp;`, `a"b`}).Draw(t, "grow")
		n := rapid.IntRange(1, 40000/len(unit)).Draw(t, "growreps")
		c.Input = BStr("<p>" + strings.Repeat(unit, n) + "</p>" + genSoup(t, m, &soupOpts{maxFrags: 3}))
	case 6:
		c.Input = BStr(genCorpusMutation(t))
	case 0:
		c.Input = BStr(rapid.SliceOfN(rapid.Byte(), 0, 150).Draw(t, "bytes"))
	case 1:
		c.Input = BStr(genTree(t, m, nil))
	default:
		c.Input = BStr(genSoup(t, m, &soupOpts{attrs: []string{"href", "rel", "target", "src", "cite", "crossorigin", "sandbox"}}))
	}
	return c
}

func checkC20(c *Case, r *Rec) error {
	m := BuildModel(c.Spec)
	isUGC := c.Spec.Base == "UGC" && len(c.Spec.Ops) == 0
	if !isUGC && !inC20Class(m) {
		return nil // outside the stated class
	}
	in := string(c.Input)
	p := Build(c.Spec, nil)
	once := p.Sanitize(in)
	if isUGC {
		for _, t := range tokenize(once) {
			if isOpenTag(t) && (t.Name == "del" || t.Name == "ins") {
				if _, ok := firstAttr(t.Attr, "cite"); ok {
					r.Class("ugc_del_ins_cite_survived_not_asserted")
					return nil
				}
			}
		}
	}
	twice := p.Sanitize(once)
	if twice != once && c.Kind != "strict-replay" && sameModuloAttrOrder(once, twice) {
		// known findings D23 / D56: two attributes the sanitiser adds itself, one of which the policy
		// also allows, come out in a different order on the second pass; nothing but the order of
		// these two attributes inside start tags of that element differs
		known := map[string]string{"a:rel,target": "attribute_order_only", "link:crossorigin,rel": "attribute_order_only_link_crossorigin"}
		var classes []string
		for _, mv := range movedAttrs(once, twice) {
			cl, ok := known[mv]
			if !ok || !knownClassEnabled("C20", cl) {
				classes = nil
				break
			}
			classes = append(classes, cl)
		}
		if len(classes) > 0 {
			for _, cl := range classes {
				r.Excluded(cl)
			}
			return nil
		}
	}
	if twice != once {
		return violation(twice, "C20: Sanitize(Sanitize(x)) differs from Sanitize(x): first pass %s, second pass %s", q(trunc(once, 300)), q(trunc(twice, 300)))
	}
	r.Class("base:" + c.Spec.Base)
	if len(c.Ints) > 0 && c.Ints[0] > 0 {
		r.Class("spec_ops_dropped_to_stay_in_class")
	}
	interesting := false
	for _, t := range tokenize(once) {
		if isOpenTag(t) && len(t.Attr) > 0 {
			interesting = true
		}
	}
	if strings.Contains(once, "&") {
		interesting = true
	}
	if once != in && interesting {
		r.NonTrivial(c.Spec.String()+"\x00"+in, func() any {
			return map[string]any{"policy": c.Spec.String(), "input": q(trunc(in, 300)), "first_pass": q(trunc(once, 300))}
		})
	}
	return nil
}

func init() {
	register(&Prop{ID: "C04", Gen: genC04, Check: checkC04})
	register(&Prop{ID: "C20", Gen: genC20, Check: checkC20})
}
