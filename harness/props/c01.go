package props

import (
	"fmt"
	"net/url"
	"strings"
	"sync"
	"unicode/utf8"

	"github.com/microcosm-cc/bluemonday"
	"golang.org/x/net/html"
	"pgregory.net/rapid"
)

// C01 — only allowlisted elements reach the output.
// C02 — only allowlisted attributes with accepted values reach the output.
// Both share the domain (any policy × hostile soup / mangled trees).

func genPolicyAndInput(t *rapid.T, so *SpecOpts) *Case {
	spec := genSpec(t, so)
	if rapid.IntRange(0, 7).Draw(t, "patternHeavy") == 0 {
		// several element patterns in one policy (each must keep its own meaning: flags, anchors
		// and alternations of one expression must not bleed into another)
		for i := rapid.IntRange(2, 4).Draw(t, "npat"); i > 0; i-- {
			o := Op{Kind: "AllowElementsMatching", ElRe: rapid.IntRange(0, len(elRePool)-1).Draw(t, "pelre"), ValRe: -1}
			if rapid.IntRange(0, 3).Draw(t, "pbare") == 0 {
				o = Op{Kind: "AllowNoAttrs", Scope: "elre", ElRe: o.ElRe, ValRe: -1}
			}
			if rapid.IntRange(0, 2).Draw(t, "pflag") == 0 {
				o.ElRe = 13 + rapid.IntRange(0, 3).Draw(t, "pflagged") // the expressions with inline flags / upper case
			}
			spec.Ops = append(spec.Ops, o)
		}
	}
	if rapid.IntRange(0, 11).Draw(t, "rawInContainer") == 0 {
		// a KEPT raw-text element inside a container in which a tree builder does not treat it as
		// raw text (foreign content, select, table): its text must still be inert there
		raw := rapid.SampledFrom([]string{"xmp", "iframe", "noembed", "noframes", "noscript", "textarea", "title"}).Draw(t, "rawEl")
		cont := rapid.SampledFrom([]string{"svg", "math", "select", "table", "svg"}).Draw(t, "container")
		spec.Ops = append(spec.Ops, Op{Kind: "AllowElements", Names: []string{cont, raw, "desc", "mtext", "option", "td", "tr"}, ValRe: -1},
			Op{Kind: "AllowNoAttrs", Scope: "els", Names: []string{raw, cont}, ValRe: -1})
		inner := rapid.SampledFrom([]string{"<img src=x onerror=alert(1)>", "<script>alert(1)</script>", "<b>x</b>", "</" + raw + "><img src=x>", "<!-- c --><i>", "&lt;img src=x&gt;", "<a href=javascript:x>y"}).Draw(t, "rawInner")
		mid := rapid.SampledFrom([]string{"", "<desc>", "<mtext>", "<option>", "<tr><td>", "<foreignObject>"}).Draw(t, "mid")
		c := &Case{Spec: spec, Kind: "raw-in-container", Input: BStr("<" + cont + ">" + mid + "<" + raw + ">" + inner + "</" + raw + "></" + cont + ">t")}
		c.Ints = []int{drawStage(t, spec)}
		return c
	}
	m := BuildModel(spec)
	c := &Case{Spec: spec}
	switch k := rapid.IntRange(0, 9).Draw(t, "treeOrSoup"); {
	case k <= 1:
		c.Kind = "tree"
		c.Input = BStr(genTree(t, m, nil))
	case k == 2:
		c.Kind = "corpus"
		c.Input = BStr(genCorpusMutation(t))
	default:
		c.Kind = "soup"
		c.Input = BStr(genSoup(t, m, nil))
	}
	c.Ints = []int{drawStage(t, spec)}
	return c
}

func sanitizeSpec(spec *Spec, in string) (out string, log *Log) {
	log = newLog()
	p := Build(spec, log)
	return p.Sanitize(in), log
}

// sanitizeStaged builds the policy in two phases when stage is in [0, len(ops)): the base and
// the first `stage` ops, then a warm-up Sanitize of the same input (its result is discarded),
// then the remaining ops. The builder API allows a policy to be extended after it has been
// used; whatever the first phase computed or cached must not outlive the extension.
func sanitizeStaged(spec *Spec, in string, stage int) (out string, log *Log) {
	if stage < 0 || stage >= len(spec.Ops) {
		return sanitizeSpec(spec, in)
	}
	log = newLog()
	p := Build(&Spec{Base: spec.Base, Ops: spec.Ops[:stage]}, log)
	p.Sanitize(in)
	p.SanitizeBytes([]byte(in))
	*log = *newLog()
	for _, o := range spec.Ops[stage:] {
		ApplyOp(p, o, log)
	}
	return p.Sanitize(in), log
}

// stageOf reads the optional stage index from a case (Ints[idx]); -1 = built in one go.
func stageOf(c *Case, idx int) int {
	if len(c.Ints) > idx {
		return c.Ints[idx]
	}
	return -1
}

// drawStage: half of the cases build the policy in one go, the other half extend it after a
// first use at a random op index.
func drawStage(t *rapid.T, spec *Spec) int {
	if len(spec.Ops) == 0 || rapid.Bool().Draw(t, "staged") {
		return -1
	}
	return rapid.IntRange(0, len(spec.Ops)-1).Draw(t, "stage")
}

var sharedUGC = sync.OnceValue(func() *bluemonday.Policy { return bluemonday.UGCPolicy() })

var interferingInput = []byte(`<b>interfering</b><img src="http://example.com/x.png" alt="a"><script>alert(1)</script><a href="http://example.org/">link</a> &amp; more text to fill a buffer`)

// retainedBytes returns what a caller sees who keeps the []byte of SanitizeBytes while other
// sanitise calls (same policy, another shipped policy) run afterwards.
func retainedBytes(spec *Spec, in string) string {
	p := Build(spec, nil)
	b := p.SanitizeBytes([]byte(in))
	p.SanitizeBytes(interferingInput)
	p.Sanitize(string(interferingInput) + in)
	sharedUGC().SanitizeBytes(append(append([]byte{}, interferingInput...), in...))
	return string(b)
}

func checkElements(m *Model, in, out string, inToks, outToks []tok) error {
	// (a) context-free re-tokenisation
	for _, t := range outToks {
		switch t.Type {
		case html.StartTagToken, html.EndTagToken, html.SelfClosingTagToken:
			if !m.ElementAllowed(t.Name) {
				return violation(out, "C01(a): tag <%s> (%v) in the output is not allowed by the policy", t.Name, t.Type)
			}
		case html.CommentToken:
			if !m.comments {
				return violation(out, "C01(a): comment %q in the output although comments are not allowed", t.Name)
			}
		case html.DoctypeToken:
			return violation(out, "C01(a): doctype in the output")
		}
	}
	// (b) tree builder, every container context
	err := forEachDOM(out, func(ctx string, scripting bool, x *html.Node) error {
		switch x.Type {
		case html.ElementNode:
			name := asciiLower(x.Data)
			if m.ElementAllowed(name) || synth[name] || (name == "img" && m.ElementAllowed("image")) {
				return nil
			}
			return violation(out, "C01(b): element <%s> in the DOM built inside <%s> (scripting=%v) is not allowed by the policy", x.Data, ctx, scripting)
		case html.CommentNode:
			if !m.comments {
				return violation(out, "C01(b): comment node %q in the DOM built inside <%s>", x.Data, ctx)
			}
		case html.DoctypeNode:
			return violation(out, "C01(b): doctype node in the DOM built inside <%s>", ctx)
		}
		return nil
	})
	if err != nil {
		return err
	}
	// (c) output tags are a subsequence of the input's tags: nothing that was text, comment,
	// doctype or attribute content in the input is a tag in the output
	j := 0
	for _, t := range outToks {
		if !isTag(t) {
			continue
		}
		found := false
		for j < len(inToks) {
			x := inToks[j]
			j++
			// an opening tag may be re-serialised as start or self-closing; an end tag stays an end tag
			if isTag(x) && x.Name == t.Name && isOpenTag(x) == isOpenTag(t) {
				found = true
				break
			}
		}
		if !found {
			return violation(out, "C01(c): output tag %v <%s> does not correspond to a tag of the input (markup created)", t.Type, t.Name)
		}
	}
	if m.comments {
		// comments in the output are not more numerous than comments (incl. bogus comments) in the input
		nin, nout := 0, 0
		for _, t := range inToks {
			if t.Type == html.CommentToken {
				nin++
			}
		}
		for _, t := range outToks {
			if t.Type == html.CommentToken {
				nout++
			}
		}
		if nout > nin {
			return violation(out, "C01(c): %d comments in the output but only %d in the input", nout, nin)
		}
	}
	return nil
}

func checkC01(c *Case, r *Rec) error {
	m := BuildModel(c.Spec)
	in := string(c.Input)
	out, _ := sanitizeStaged(c.Spec, in, stageOf(c, 0))
	inToks, outToks := tokenize(in), tokenize(out)
	if err := checkElements(m, in, out, inToks, outToks); err != nil {
		return err
	}
	// what a caller holds after further calls is still the sanitised output
	if strings.TrimSpace(in) != "" {
		if kept := retainedBytes(c.Spec, in); kept != out && stageOf(c, 0) < 0 {
			if err := checkElements(m, in, kept, inToks, tokenize(kept)); err != nil {
				return violation(kept, "C01(retained): the []byte returned by SanitizeBytes changed after later calls and now violates the policy: %v", err)
			}
		}
	}
	if stageOf(c, 0) >= 0 {
		r.Class("policy_extended_after_first_use")
	}
	// classification
	disallowedIn, keptAllowed := false, false
	for _, t := range inToks {
		if (isTag(t) && !m.ElementAllowed(t.Name)) || (t.Type == html.CommentToken && !m.comments) || t.Type == html.DoctypeToken {
			disallowedIn = true
		}
	}
	for _, t := range outToks {
		if isTag(t) {
			keptAllowed = true
		}
	}
	r.Class("kind:" + c.Kind)
	if keptAllowed {
		r.Class("output_has_tag")
	}
	if disallowedIn {
		r.Class("input_has_disallowed_construct")
	}
	if len(m.elRes) > 0 {
		r.Class("policy_has_element_pattern")
	}
	if disallowedIn && keptAllowed {
		r.NonTrivial(c.Spec.String()+"\x00"+in, func() any {
			return map[string]any{"policy": c.Spec.String(), "input": q(trunc(in, 300)), "output": q(trunc(out, 300))}
		})
	}
	return nil
}

func init() {
	register(&Prop{ID: "C01", Gen: func(t *rapid.T) *Case { return genPolicyAndInput(t, nil) }, Check: checkC01})
	register(&Prop{ID: "C02", Gen: genC02, Check: checkC02})
}

// ---------------------------------------------------------------------------------------------
// C02

func genC02(t *rapid.T) *Case {
	// attribute part turned up: more AllowAttrs with overlapping scopes
	kinds := append([]string{}, defaultOpKinds...)
	for i := 0; i < 12; i++ {
		kinds = append(kinds, "AllowAttrs")
	}
	kinds = append(kinds, "AllowDataAttributes", "AllowDataAttributes", "AllowNoAttrs", "AllowNoAttrs", "AllowElements")
	switch rapid.IntRange(0, 11).Draw(t, "c02focus") {
	case 0:
		// forced attributes: the sandbox list is a switch-like setting (its most recent call counts)
		spec := genSpec(t, &SpecOpts{Kinds: kinds, MaxOps: 5})
		own := []string{"src", "sandbox", "crossorigin", "id"}
		if rapid.IntRange(0, 2).Draw(t, "sandboxNotAllowed") == 0 {
			own = []string{"src", "id"} // sandbox and crossorigin reach the output only when forced
			spec.Ops = append(spec.Ops, Op{Kind: "RequireCrossOriginAnonymous", B: true, ValRe: -1})
		}
		spec.Ops = append(spec.Ops, Op{Kind: "AllowAttrs", Attrs: own, Scope: "els", Names: []string{"iframe", "img"}, ValRe: -1})
		for i := rapid.IntRange(1, 3).Draw(t, "nsbcalls"); i > 0; i-- {
			spec.Ops = append(spec.Ops, Op{Kind: rapid.SampledFrom([]string{"RequireSandboxOnIFrame", "AllowIFrames"}).Draw(t, "sbkindop"), Vals: drawSandbox(t), ValRe: -1})
		}
		var sb strings.Builder
		for i := rapid.IntRange(1, 3).Draw(t, "nif"); i > 0; i-- {
			var toks []string
			for j := rapid.IntRange(0, 5).Draw(t, "nsbt"); j > 0; j-- {
				toks = append(toks, rapid.SampledFrom(sbToks).Draw(t, "sbtok"))
			}
			switch rapid.IntRange(0, 4).Draw(t, "ifshape") {
			case 0: // none of its own attributes survives
				sb.WriteString(`<iframe onload="x" sandbox="` + strings.Join(toks, " ") + `">t</iframe><img onerror="x" crossorigin="use-credentials">`)
			case 1:
				sb.WriteString(`<iframe src="javascript:x">t</iframe><img src="vbscript:x" id="">`) // removed by the URL pass, after the rule filter
			default:
				sb.WriteString(`<iframe src="http://example.com/x" sandbox="` + strings.Join(toks, " ") + `">t</iframe>`)
			}
		}
		return &Case{Spec: spec, Input: BStr(sb.String()), Kind: "sandbox-focus", Ints: []int{drawStage(t, spec)}}
	case 1:
		// which rules govern the style attribute: the attribute allowed on a NAMED element, style
		// rules given in another scope (pattern or global), hostile declarations in the input
		spec := genSpec(t, &SpecOpts{Kinds: kinds, MaxOps: 4})
		host := rapid.SampledFrom([]string{"div", "span", "my-x", "sx", "b"}).Draw(t, "shost")
		spec.Ops = append(spec.Ops, Op{Kind: "AllowAttrs", Attrs: []string{"style", "id"}, Scope: "els", Names: []string{host}, ValRe: -1})
		for i := rapid.IntRange(1, 2).Draw(t, "nstyleops"); i > 0; i-- {
			o := genOp(t, "AllowStyles", &SpecOpts{StPool: []string{"color", "width", "text-align", "margin"}})
			if rapid.IntRange(0, 2).Draw(t, "forcePattern") != 0 {
				o.Scope, o.ElRe = "elre", rapid.SampledFrom([]int{4, 5, 6, 0, 9}).Draw(t, "selre")
			}
			spec.Ops = append(spec.Ops, o)
		}
		var sb strings.Builder
		for i := rapid.IntRange(1, 3).Draw(t, "nst"); i > 0; i-- {
			el := rapid.SampledFrom([]string{host, host, "div", "span", "b"}).Draw(t, "sel")
			sb.WriteString("<" + el + ` id="i" style="` + escAttr(genStyleFrom(t, []string{"color", "width", "position", "text-align", "background-image", "margin"}), '"') + `">t</` + el + ">")
		}
		return &Case{Spec: spec, Input: BStr(sb.String()), Kind: "style-scope-focus", Ints: []int{drawStage(t, spec)}}
	}
	return genPolicyAndInput(t, &SpecOpts{Kinds: kinds, MaxOps: 12})
}

// wellFormedData: a custom data attribute as HTML defines it: the name starts with "data-", has at
// least one character after the hyphen, is XML-compatible (matches the Name production of XML and
// holds no colon), holds no ASCII upper-case letter; and, as bluemonday documents, does not go on
// with "xml". The first five characters being ASCII letters and a hyphen, only what follows needs
// to be made of XML name characters.
func wellFormedData(k string) bool {
	if !strings.HasPrefix(k, "data-") || len(k) <= 5 {
		return false
	}
	rest := k[5:]
	if strings.HasPrefix(rest, "xml") {
		return false
	}
	if !utf8.ValidString(rest) {
		return false // bytes that are not UTF-8 are no characters, let alone name characters
	}
	for _, c := range rest {
		switch {
		case c == '-' || c == '.' || c == '_' || (c >= '0' && c <= '9') || (c >= 'a' && c <= 'z'):
		case c == 0xB7, c >= 0xC0 && c <= 0xD6, c >= 0xD8 && c <= 0xF6, c >= 0xF8 && c <= 0x37D, c >= 0x37F && c <= 0x1FFF,
			c == 0x200C, c == 0x200D, c == 0x203F, c == 0x2040, c >= 0x2070 && c <= 0x218F, c >= 0x2C00 && c <= 0x2FEF,
			c >= 0x3001 && c <= 0xD7FF, c >= 0xF900 && c <= 0xFDCF, c >= 0xFDF0 && c <= 0xFFFD, c >= 0x10000 && c <= 0xEFFFF:
		default:
			return false
		}
	}
	return true
}

var urlPos = map[string]string{"a": "href", "area": "href", "base": "href", "link": "href", "blockquote": "cite", "del": "cite", "ins": "cite", "q": "cite",
	"audio": "src", "embed": "src", "iframe": "src", "img": "src", "image": "src", "input": "src", "script": "src", "source": "src", "track": "src", "video": "src"}

var srcRewritePos = map[string]bool{"audio": true, "embed": true, "iframe": true, "img": true, "image": true, "input": true, "script": true, "source": true, "track": true, "video": true}

func stripForcedRel(v string) []string {
	cands := []string{v}
	cur := v
	for i := 0; i < 3; i++ {
		cut := false
		for _, tk := range []string{" nofollow", " noreferrer", " noopener"} {
			if strings.HasSuffix(cur, tk) {
				cur = strings.TrimSuffix(cur, tk)
				cands = append(cands, cur)
				cut = true
				break
			}
		}
		if !cut {
			break
		}
	}
	return cands
}

// urlNormalForms lists the re-serialisations of an accepted input URL value that the
// sanitiser documents (trimmed, re-serialised by net/url, data: URLs with line breaks
// removed). Used only to tie an output URL attribute back to an input attribute.
func urlNormalForms(iv string) []string {
	out := []string{iv}
	tv := strings.TrimSpace(iv)
	out = append(out, tv)
	cands := []string{tv}
	if strings.HasPrefix(tv, "data:") {
		if i := strings.Index(tv, ";base64,"); i >= 0 {
			cands = append(cands, tv[:i+8]+strings.NewReplacer("\r", "", "\n", "").Replace(tv[i+8:]))
		}
	}
	for _, c := range cands {
		if u, err := url.Parse(c); err == nil {
			out = append(out, u.String(), strings.TrimSpace(u.String()))
		}
	}
	return out
}

func checkAttributes(m *Model, log *Log, in, out string, inToks, outToks []tok, r *Rec) (regexAccepted bool, err error) {
	for _, t := range outToks {
		if !isOpenTag(t) {
			continue
		}
		el := t.Name
		if len(t.Attr) == 0 && !m.MayBeBare(el) {
			return false, violation(out, "C02: <%s> is emitted without attributes although the policy permits it only with attributes", el)
		}
		if len(t.Attr) > 0 && !m.MayBeBare(el) {
			// an element the policy permits only with attributes must not be emitted with nothing but
			// attributes the sanitiser forced on it (rel, target, crossorigin, sandbox that no rule admits)
			own := 0
			for _, a := range t.Attr {
				k, v := a.Key, a.Val
				forcedKey := k == "rel" || k == "target" || k == "crossorigin" || k == "sandbox"
				if !forcedKey || m.AttrAllowed(el, k, v) || (m.dataAttrs && wellFormedData(k)) {
					own++
					continue
				}
				// a forced attribute is rewritten in place when the input had it: it is the element's
				// own if some tag of that name in the input carries it with a value the policy admits
				// (sandbox="allow-nothing" admitted by a rule and then emptied by the sandbox pass)
				for _, it := range inToks {
					if !isOpenTag(it) || it.Name != el {
						continue
					}
					for _, ia := range it.Attr {
						if ia.Key == k && m.AttrAllowed(el, k, ia.Val) {
							own++
						}
					}
				}
			}
			if own == 0 {
				return false, violation(out, "C02: <%s> is emitted with forced attributes only although the policy permits it only with attributes of its own", el)
			}
		}
		for _, a := range t.Attr {
			k, v := a.Key, a.Val
			// class 2: data attributes
			if m.dataAttrs && wellFormedData(k) {
				r.Class("attr:data")
				continue
			}
			// class 1: style governed by style rules -> C10
			if k == "style" && m.HasStyleRules(el) {
				r.Class("attr:style_by_rules")
				continue
			}
			// class 3: forced / rewritten attributes
			if k == "rel" && m.linkOptions() && (el == "a" || el == "area" || el == "link" || el == "base") {
				ok := false
				for _, c := range stripForcedRel(v) {
					if m.AttrAllowed(el, k, c) {
						ok = true
					}
				}
				all := true
				for _, f := range strings.Fields(v) {
					if f != "nofollow" && f != "noreferrer" && f != "noopener" {
						all = false
					}
				}
				if ok || all {
					r.Class("attr:rel_forced")
					continue
				}
				return false, violation(out, "C02: rel=%q on <%s> is neither an allowed value nor allowed value + forced tokens", v, el)
			}
			if k == "target" && el == "a" && m.targetBlank && v == "_blank" {
				r.Class("attr:target_forced")
				continue
			}
			if k == "crossorigin" && m.crossOrigin && v == "anonymous" && (el == "audio" || el == "img" || el == "image" || el == "link" || el == "script" || el == "video") {
				r.Class("attr:crossorigin_forced")
				continue
			}
			if k == "sandbox" && el == "iframe" && m.sandbox != nil {
				for _, f := range htmlFields(v) {
					if !m.sandbox[f] {
						return false, violation(out, "C02: forced sandbox attribute carries the token %q, which the policy's (most recent) RequireSandboxOnIFrame call did not list", f)
					}
				}
				r.Class("attr:sandbox_forced")
				continue
			}
			// class 4: URL attributes at URL-checked positions: judged on the decoded input value
			if m.parseURLs && urlPos[el] == k {
				ok := false
				for _, it := range inToks {
					if !isOpenTag(it) || it.Name != el {
						continue
					}
					for _, ia := range it.Attr {
						if ia.Key != k || !m.AttrAllowed(el, k, ia.Val) {
							continue
						}
						if m.rewriter >= 0 && k == "src" && srcRewritePos[el] {
							ok = true
							continue
						}
						for _, nf := range urlNormalForms(ia.Val) {
							if nf == v {
								ok = true
							}
						}
					}
				}
				if !ok {
					return false, violation(out, "C02: URL attribute %s=%q on <%s> does not stem from an input attribute whose decoded value the policy accepts", k, v, el)
				}
				r.Class("attr:url_position")
				continue
			}
			// class 5: ordinary rule
			if !m.AttrAllowed(el, k, v) {
				return false, violation(out, "C02: attribute %s=%q on <%s> is not allowed by any element, element-pattern or global rule", k, v, el)
			}
			r.Class("attr:by_rule")
			if !okNoRegexp(m, el, k) {
				regexAccepted = true
			}
		}
	}
	return regexAccepted, nil
}

// okNoRegexp: is (el,k) allowed by a rule without a pattern?
func okNoRegexp(m *Model, el, k string) bool {
	for _, r := range m.elAttrs[el][k] {
		if r.re == nil {
			return true
		}
	}
	for _, r := range m.globAttrs[k] {
		if r.re == nil {
			return true
		}
	}
	for re, attrs := range m.reAttrs {
		if re.MatchString(el) {
			for _, r := range attrs[k] {
				if r.re == nil {
					return true
				}
			}
		}
	}
	return false
}

func checkC02(c *Case, r *Rec) error {
	m := BuildModel(c.Spec)
	in := string(c.Input)
	out, log := sanitizeStaged(c.Spec, in, stageOf(c, 0))
	inToks, outToks := tokenize(in), tokenize(out)
	regexAccepted, err := checkAttributes(m, log, in, out, inToks, outToks, r)
	if err != nil {
		return err
	}
	// a style attribute on an element with style rules is admitted by those rules only: every
	// declaration in it must be one they accept (the C10 reading, applied here as well because
	// the decision WHETHER style rules govern an element is part of the attribute stage)
	if _, err := checkStyleSafety(m, out, outToks, nil); err != nil {
		return err
	}
	// attributes never appear from nowhere: every output attribute key occurs as an attribute key
	// of an input tag of the same name, unless it is one of the four forced attributes
	for _, t := range outToks {
		if !isOpenTag(t) {
			continue
		}
		for _, a := range t.Attr {
			if a.Key == "rel" || a.Key == "target" || a.Key == "crossorigin" || a.Key == "sandbox" {
				continue
			}
			found := false
			for _, it := range inToks {
				if isOpenTag(it) && it.Name == t.Name {
					for _, ia := range it.Attr {
						if ia.Key == a.Key {
							found = true
						}
					}
				}
			}
			if !found {
				return violation(out, "C02: attribute %q on <%s> does not occur on any <%s> of the input", a.Key, t.Name, t.Name)
			}
		}
	}
	// NT: an attribute accepted through a pattern rule is in the output and some attribute of a kept
	// element was removed
	removed := false
	outAttrCount := map[string]int{}
	for _, t := range outToks {
		if isOpenTag(t) {
			for _, a := range t.Attr {
				outAttrCount[t.Name+" "+a.Key]++
			}
		}
	}
	inAttrCount := map[string]int{}
	outNames := map[string]bool{}
	for _, t := range outToks {
		if isOpenTag(t) {
			outNames[t.Name] = true
		}
	}
	for _, t := range inToks {
		if isOpenTag(t) && outNames[t.Name] {
			for _, a := range t.Attr {
				inAttrCount[t.Name+" "+a.Key]++
			}
		}
	}
	for k, n := range inAttrCount {
		if outAttrCount[k] < n {
			removed = true
		}
	}
	r.Class("kind:" + c.Kind)
	if regexAccepted {
		r.Class("kept_attr_via_pattern_rule")
	}
	if removed {
		r.Class("attr_removed_from_kept_element_name")
	}
	if regexAccepted && removed {
		r.NonTrivial(c.Spec.String()+"\x00"+in, func() any {
			return map[string]any{"policy": c.Spec.String(), "input": q(trunc(in, 300)), "output": q(trunc(out, 300))}
		})
	}
	return nil
}

var _ = fmt.Sprintf
