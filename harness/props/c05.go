package props

import (
	"fmt"
	"strings"

	"golang.org/x/net/html"
	"pgregory.net/rapid"
)

// C05 — script and style never survive unless AllowUnsafe(true).

var scriptForms = []string{"<script>%s</script>", "<SCRIPT>%s</SCRIPT>", "<ScRiPt type=\"x\">%s</sCrIpT >", "<script/>%s</script>", "<style>%s</style>", "<STYLE media=all>%s</STYLE>", "<style/>%s</style>",
	"<svg><script>%s</script></svg>", "<math><style>%s</style></math>", "<script>%s", "<style>%s", "<script><!--<script>%s</script>--></script>", "<table><script>%s</script></table>", "<select><style>%s</style></select>",
	"<xmp><script>%s</script></xmp>", "<textarea><script>%s</script></textarea>", "<!--<script>%s</script>-->", "<a title=\"<script>%s</script>\">t</a>", "<scrİpt>%s</scrİpt>", "</script>%s", "<script src=x>%s</script>",
	"<script\n>%s</script\t>", "<b><style>%s</b></style>", "<title><style>%s</style></title>", "<script>%s</style></script>", "<noscript><script>%s</script></noscript>", "<iframe><script>%s</script></iframe>",
	"<plaintext><script>%s</script>", "<script id=a/>%s</script>", "<STYLE/>%s</STYLE>", "<ſcript>%s</ſcript>", "<script x=\">\">%s</script>", "<svg><style/>%s</style></svg>", "<script>%s</scrip>x</script>",
	"<script><!--%s--></script>", "<style><![CDATA[%s]]></style>", "<div><script defer>%s</script ></div>", "<script\x00>%s</script>", "<script/x>%s</script>", "<style>%s</style/>", "<object><script>%s</script></object>",
	// raw-text element NAMES where a tree builder has no raw text: inside foreign content and inside select
	"<svg><xmp><script>%s</script></xmp></svg>", "<math><textarea><style>%s</style></textarea></math>", "<select><xmp><script>%s</script></xmp></select>", "<svg><title><script>%s</script></title></svg>",
	"<math><mtext><xmp><script>%s</script></xmp></mtext></math>", "<svg><noembed><style>%s</style></noembed>", "<svg><desc><textarea><script>%s</script></textarea></desc></svg>",
	// script / style inside foreign content are no raw text for a tree builder: comments, CDATA sections and
	// attribute values hide the end tag from a browser, not from the tokenizer
	"<svg><script><!-- </script> -->%s</script></svg>", "<svg><style><![CDATA[</style>%s]]></style></svg>", "<math><style><a title=\"</style>\"></a>%s</style></math>"}

// fragments that drive the tokenizer through the script data (double) escaped states
var scriptStateFrags = []string{"<!--", "-->", "<script>", "<script ", "<SCRIPT>", "</script>", "</script ", "</SCRIPT>", "<0", "<", "<<", "--", "-", ">", "x", "<scriptx>", "</scriptx>", "<!-", "<!", "</", "<a>", "a<b", " ", "<script/", "</script/"}

// genScriptStates: one script element whose content walks through the escaped / double escaped
// states of the standard, markers in between, ordinary markup and a marker after it.
func genScriptStates(t *rapid.T) string {
	var sb strings.Builder
	sb.WriteString(rapid.SampledFrom([]string{"<script>", "<script>", "<SCRIPT type=x>", "<script\n>"}).Draw(t, "open"))
	n := rapid.IntRange(2, 10).Draw(t, "nfrag")
	mk := 0
	for i := 0; i < n; i++ {
		if rapid.IntRange(0, 2).Draw(t, "mk") == 0 {
			mk++
			sb.WriteString(fmt.Sprintf("MK%04dQ", mk))
		}
		sb.WriteString(rapid.SampledFrom(scriptStateFrags).Draw(t, "frag"))
	}
	mk++
	sb.WriteString(fmt.Sprintf("MK%04dQ</script>", mk))
	sb.WriteString(fmt.Sprintf("<b>MK%04dQ</b>", mk+1))
	return sb.String()
}

// scriptStartLen: length of the script start tag at the beginning of in, or 0.
func scriptStartLen(in string) int {
	if len(in) < 8 || asciiLower(in[:7]) != "<script" {
		return 0
	}
	// the tag name must END after "script": <script\x00> or <scriptx> are other elements
	if !strings.ContainsRune(" \t\n\f\r>", rune(in[7])) {
		return 0
	}
	i := strings.IndexByte(in, '>')
	if i < 0 || strings.ContainsAny(in[7:i], "\"'/=") {
		return 0
	}
	return i + 1
}

func genC05(t *rapid.T) *Case {
	spec := genSpec(t, nil)
	// bias: try hard to allow script/style
	extra := rapid.IntRange(0, 5).Draw(t, "bias")
	nr := func(o Op) Op { o.ValRe = -1; return o }
	if extra > 0 {
		spec.Ops = append(spec.Ops, nr(Op{Kind: "AllowElements", Names: []string{"script", "STYLE"}}))
	}
	if extra > 1 {
		spec.Ops = append(spec.Ops, nr(Op{Kind: "AllowElementsContent", Names: []string{"script", "style"}}))
	}
	if extra > 2 {
		spec.Ops = append(spec.Ops, nr(Op{Kind: "AllowAttrs", Attrs: []string{"src", "type", "media", "id"}, Scope: "elre", ElRe: rapid.SampledFrom([]int{4, 5}).Draw(t, "sre"), NoAttr: true}))
	}
	if extra > 3 {
		spec.Ops = append(spec.Ops, nr(Op{Kind: "AllowNoAttrs", Scope: "els", Names: []string{"Script", "style"}}))
	}
	if extra > 4 {
		spec.Ops = append(spec.Ops, nr(Op{Kind: "AllowAttrs", Attrs: []string{"src", "type", "media", "id"}, Scope: "els", Names: []string{"script", "style"}}))
	}
	m := BuildModel(spec)
	if rapid.IntRange(0, 5).Draw(t, "scriptStates") == 0 {
		return &Case{Spec: spec, Input: BStr(genScriptStates(t)), Kind: "script-states"}
	}
	var sb strings.Builder
	k := rapid.IntRange(1, 4).Draw(t, "nforms")
	for i := 0; i < k; i++ {
		f := rapid.SampledFrom(scriptForms).Draw(t, "form")
		sb.WriteString(fmt.Sprintf(f, fmt.Sprintf("MK%04dQ", i)))
		if rapid.Bool().Draw(t, "soup") {
			sb.WriteString(genSoup(t, m, &soupOpts{maxFrags: 5, els: []string{"script", "style", "svg", "math"}}))
		}
	}
	return &Case{Spec: spec, Input: BStr(sb.String())}
}

func markersIn(s string) []string {
	var out []string
	for j := 0; j+7 <= len(s); j++ {
		if s[j] == 'M' && s[j+1] == 'K' && s[j+6] == 'Q' && isDigits(s[j+2:j+6]) {
			out = append(out, s[j:j+7])
		}
	}
	return out
}

func isDigits(s string) bool {
	for i := 0; i < len(s); i++ {
		if s[i] < '0' || s[i] > '9' {
			return false
		}
	}
	return true
}

func checkC05(c *Case, r *Rec) error {
	m := BuildModel(c.Spec)
	in := string(c.Input)
	out, _ := sanitizeSpec(c.Spec, in)
	outToks := tokenize(out)
	// (1) no script/style tag token and no such DOM node in any context
	for _, tk := range outToks {
		if isTag(tk) && (tk.Name == "script" || tk.Name == "style") {
			return violation(out, "C05(1): <%s> tag (%v) in the output", tk.Name, tk.Type)
		}
	}
	err := forEachDOM(out, func(ctx string, scripting bool, x *html.Node) error {
		if x.Type == html.ElementNode {
			if n := asciiLower(x.Data); n == "script" || n == "style" {
				return violation(out, "C05(1): <%s> element in the DOM built inside <%s>", x.Data, ctx)
			}
		}
		return nil
	})
	if err != nil {
		return err
	}
	// (2) bodies of script/style elements per the reference tokenisation of the input
	its := tokenize(in)
	real := 0
	decodedOut := html.UnescapeString(out)
	for i, tk := range its {
		if isOpenTag(tk) && (tk.Name == "script" || tk.Name == "style") && i+1 < len(its) && its[i+1].Type == html.TextToken {
			real++
			for _, mk := range markersIn(its[i+1].Name) {
				// the same marker may legitimately occur elsewhere in the input as ordinary text
				// (markers are unique per form, so this does not happen by construction)
				if strings.Contains(out, mk) || strings.Contains(decodedOut, mk) {
					return violation(out, "C05(2): text %s from inside a %s element appears in the output", mk, tk.Name)
				}
			}
		}
	}
	// (3) the same for a leading script element, its extent taken from a transcription of the
	// standard's script data states instead of the tokenizer the sanitiser itself uses
	if n := scriptStartLen(in); n > 0 {
		body := in[n:]
		stdEnd := scriptDataEnd(body)
		xnetEnd := 0
		if len(its) > 1 && its[1].Type == html.TextToken {
			xnetEnd = len(its[1].Raw)
		}
		if stdEnd != xnetEnd {
			r.Class("standard_and_tokenizer_disagree_on_script_end")
		}
		for _, mk := range markersIn(body[:stdEnd]) {
			if strings.Contains(out, mk) || strings.Contains(decodedOut, mk) {
				if c.Kind != "strict-replay" && xnetEnd < stdEnd && !strings.Contains(body[:xnetEnd], mk) && knownClassEnabled("C05", "tokenizer_leaves_script_data_escaped_state_early") {
					r.Excluded("tokenizer_leaves_script_data_escaped_state_early")
					continue
				}
				return violation(out, "C05(3): text %s lies inside the leading script element as the HTML standard delimits it (its end tag begins at offset %d of the content; the tokenizer in use ends it at %d) but appears in the output", mk, stdEnd, xnetEnd)
			}
		}
	}
	// (4) the same for every script / style element of the tree a browser builds from the INPUT (the
	// tokenizer is context-free: inside svg, math and select the names xmp, title, textarea, ... do
	// not start raw text for a tree builder, what follows them is markup)
	tokenizerBodies := ""
	for i, tk := range its {
		if isOpenTag(tk) && (tk.Name == "script" || tk.Name == "style") && i+1 < len(its) && its[i+1].Type == html.TextToken {
			tokenizerBodies += its[i+1].Name + "\x00"
		}
	}
	for _, ctx := range []string{"body", "div"} {
		nodes, perr := parseIn(in, ctx, true)
		if perr != nil {
			continue
		}
		for _, root := range nodes {
			var verr error
			walk(root, func(x *html.Node) {
				if verr != nil || x.Type != html.ElementNode {
					return
				}
				if n := asciiLower(x.Data); n != "script" && n != "style" {
					return
				}
				walk(x, func(y *html.Node) {
					if verr != nil || y.Type != html.TextNode {
						return
					}
					for _, mk := range markersIn(y.Data) {
						if !strings.Contains(out, mk) && !strings.Contains(decodedOut, mk) {
							continue
						}
						if c.Kind != "strict-replay" && !strings.Contains(tokenizerBodies, mk) && knownClassEnabled("C05", "raw_text_element_name_where_a_tree_builder_has_markup") {
							r.Excluded("raw_text_element_name_where_a_tree_builder_has_markup")
							continue
						}
						verr = violation(out, "C05(4): text %s lies inside a <%s> element of the tree built from the input (context <%s>) but appears in the output", mk, x.Data, ctx)
					}
				})
			})
			if verr != nil {
				return verr
			}
		}
	}
	names := false
	if m.els["script"] || m.els["style"] {
		names = true
	}
	for _, re := range m.elRes {
		if re.MatchString("script") || re.MatchString("style") {
			names = true
		}
	}
	if real > 0 {
		r.Class("input_has_real_script_or_style")
	}
	if names {
		r.Class("policy_names_or_matches_script_style")
	}
	if !m.skip["script"] || !m.skip["style"] {
		r.Class("policy_unskips_script_or_style_content")
	}
	if real > 0 && names && out != "" {
		r.NonTrivial(c.Spec.String()+"\x00"+in, func() any {
			return map[string]any{"policy": c.Spec.String(), "input": q(trunc(in, 300)), "output": q(trunc(out, 300))}
		})
	}
	return nil
}

func init() { register(&Prop{ID: "C05", Gen: genC05, Check: checkC05}) }
