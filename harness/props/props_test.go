package props

import (
	"os"
	"testing"
)

func TestMain(m *testing.M) {
	code := m.Run()
	cleanupCLI()
	os.Exit(code)
}

func TestC01(t *testing.T) { runProp(t, "C01") }
func TestC02(t *testing.T) { runProp(t, "C02") }
func TestC03(t *testing.T) { runProp(t, "C03") }
func TestC04(t *testing.T) { runProp(t, "C04") }
func TestC05(t *testing.T) { runProp(t, "C05") }
func TestC06(t *testing.T) { runProp(t, "C06") }
func TestC07(t *testing.T) { runProp(t, "C07") }
func TestC08(t *testing.T) { runProp(t, "C08") }
func TestC09(t *testing.T) { runProp(t, "C09") }
func TestC10(t *testing.T) { runProp(t, "C10") }
func TestC11(t *testing.T) { runProp(t, "C11") }
func TestC12(t *testing.T) { runProp(t, "C12") }
func TestC13(t *testing.T) { runProp(t, "C13") }
func TestC14(t *testing.T) { runProp(t, "C14") }
func TestC15(t *testing.T) { runProp(t, "C15") }
func TestC16(t *testing.T) { runProp(t, "C16") }
func TestC17(t *testing.T) { runProp(t, "C17") }
func TestC18(t *testing.T) { runProp(t, "C18") }
func TestC19(t *testing.T) { runProp(t, "C19") }
func TestC20(t *testing.T) { runProp(t, "C20") }

// TestReplay re-runs one saved case through the property's oracle, bypassing rapid.
func TestReplay(t *testing.T) {
	path := os.Getenv("VERIF_REPLAY_IN")
	if path == "" {
		t.Skip("VERIF_REPLAY_IN not set")
	}
	c, err := loadCase(path)
	if err != nil {
		t.Fatalf("HARNESS-ERROR: %v", err)
	}
	p := registry[c.Prop]
	if p == nil {
		t.Fatalf("HARNESS-ERROR: unknown property %q in %s", c.Prop, path)
	}
	if err := runChecked(p, c, nil); err != nil {
		if _, ok := err.(harnessError); ok {
			t.Fatalf("%v", err)
		}
		t.Fatalf("REPLAY-VIOLATION property=%s: %v", c.Prop, err)
	}
}
