package props

import (
	"net/url"
	"regexp"
	"sort"
	"strings"

	"github.com/microcosm-cc/bluemonday"
	"golang.org/x/net/html"
	"pgregory.net/rapid"
)

// C07 — conforming content passes through unchanged (rules are additive).
// G-conform: a document generated from the policy model's own vocabulary.

var helperSamples = map[string][]string{
	reLang.String(): {"en", "fr", "pt-BR", "zh-Hant-TW", "de-DE-u-co-phonebk", "en-x-legal", "ja-t-it"}, reID.String(): {"id1", "a.b"}, reScope.String(): {"row", "colgroup"}, reNowrap.String(): {"", "nowrap"}, reOpen.String(): {"", "open"},
	reMapName.String(): {"map1", "\u00fcbersicht", "\u043a\u0430\u0440\u0442\u0430"}, reCoords.String(): {"1,2,3"}, reShape.String(): {"rect"}, reUsemap.String(): {"#map1", "#\u00fcbersicht", "#\u043a\u0430\u0440\u0442\u0430", "#\u5730\u56f3"},
}

func samplesFor(r rule) []string {
	if r.re == nil {
		return []string{"v1", "two words", "a<b&c\"d'e", "", "x=y"}
	}
	if r.vi >= 0 {
		return valRePool[r.vi].good
	}
	for _, e := range valRePool {
		if e.re == r.re || e.re.String() == r.re.String() {
			return e.good
		}
	}
	return helperSamples[r.re.String()]
}

var canonURLs = []string{"http://example.com/?a=1&region=eu&copy=2&lt=3&amp=4", "/shop?lang=en&section=2&notify=1", "http://example.com/a?b=c#d", "https://example.org/", "https://example.org/ok/x", "http://example.org/ok", "mailto:user@example.com", "/path/x.html", "#frag", "//cdn.example.com/x",
	"ftp://h/f", "x-app://open", "tel:123", "rel/y", "/ok/rel", "sftp://h/p", "data:image/png;base64,iVBORw0KGgo=", "data:image/gif;base64,R0lGODlh", "?", "?q=1"}

// references to the document itself and empty fragments, as authors write them (known finding D38:
// net/url does not write an empty fragment; href="#" is dropped, http://example.com/a# loses its #)
var emptyFragmentURLs = []string{"#", "http://example.com/a#", "/path/x.html#", "?q=1#", "https://example.org/ok/x#"}

// hasEmptyFragmentURL: some URL-checked attribute of the document ends in an empty fragment.
func hasEmptyFragmentURL(in string) bool {
	for _, t := range tokenize(in) {
		if !isOpenTag(t) {
			continue
		}
		for _, a := range t.Attr {
			if urlPos[t.Name] == a.Key && strings.HasSuffix(a.Val, "#") {
				return true
			}
		}
	}
	return false
}

// urlConforms: would a conforming document be allowed to use v at a URL-checked position?
func (m *Model) urlConforms(v string) bool {
	sch, abs := schemeOf(v)
	if !abs {
		return m.relative
	}
	allowed, custom := m.SchemeAllowed(sch)
	if !allowed {
		return false
	}
	if len(custom) == 0 {
		return true
	}
	u, err := url.Parse(v)
	if err != nil {
		return false
	}
	for _, id := range custom {
		if id == dataURIFn {
			if dataURIImageOK(u) {
				return true
			}
		} else if urlFns[id].fn(u) {
			return true
		}
	}
	return false
}

type celem struct {
	name     string
	rules    map[string][]rule
	explicit bool
}

var conformCandNames = append(append([]string{}, elemPool...), "my-zzz", "x-q", "sx", "tagged", "b-y", "zz", "qq", "custom", "h6")

func conformVocabulary(m *Model) []celem {
	var elems []celem
	seen := map[string]bool{}
	add := func(name string, explicit bool) {
		if seen[name] || name == "script" || name == "style" || name == "plaintext" || !validTreeName(name) {
			return
		}
		seen[name] = true
		rules := map[string][]rule{}
		keys := map[string]bool{}
		for k := range m.elAttrs[name] {
			keys[k] = true
		}
		for _, as := range m.reAttrs {
			for k := range as {
				keys[k] = true
			}
		}
		for k := range m.globAttrs {
			keys[k] = true
		}
		for k := range keys {
			if rs := m.rulesFor(name, k); len(rs) > 0 {
				rules[k] = rs
			}
		}
		elems = append(elems, celem{name, rules, explicit})
	}
	names := make([]string, 0, len(m.els))
	for e := range m.els {
		names = append(names, e)
	}
	sort.Strings(names)
	for _, e := range names {
		add(e, true)
	}
	for i, re := range elRePool {
		for _, r2 := range m.elRes {
			if r2 == re {
				for _, s := range elReSamples[i] {
					if !m.els[s] {
						add(s, false)
					}
				}
			}
		}
	}
	for _, c := range conformCandNames {
		if !m.els[c] && m.ElementAllowed(c) {
			add(c, false)
		}
	}
	return elems
}

var cleanStyleValue = regexp.MustCompile(`^(?:[a-zA-Z0-9#%.,-][a-zA-Z0-9 #%.,-]*|'[a-z -]+')$`)

// genConform returns a well-formed document in canonical serialisation that uses only
// elements, attributes and values the model allows. ok=false when the vocabulary is empty.
func genConform(t *rapid.T, m *Model) (doc string, multiRule bool, patternEl bool, ok bool) {
	elems := conformVocabulary(m)
	if len(elems) == 0 {
		return "", false, false, false
	}
	var toks []html.Token
	var open []string
	k := rapid.IntRange(1, 8).Draw(t, "nel")
	for i := 0; i < k; i++ {
		ce := rapid.SampledFrom(elems).Draw(t, "ce")
		var attrs []html.Attribute
		keys := make([]string, 0, len(ce.rules))
		for a := range ce.rules {
			keys = append(keys, a)
		}
		sort.Strings(keys)
		used := map[string]bool{}
		na := rapid.IntRange(0, 3).Draw(t, "na")
		if !m.MayBeBare(ce.name) && na == 0 {
			na = 2
		}
		for j := 0; j < na && len(keys) > 0; j++ {
			a := rapid.SampledFrom(keys).Draw(t, "ak")
			if used[a] || (m.dataAttrs && wellFormedData(a)) {
				continue
			}
			if a == "style" && m.HasStyleRules(ce.name) {
				if st := genConformStyle(t, m, ce.name); st != "" {
					used[a] = true
					attrs = append(attrs, html.Attribute{Key: "style", Val: st})
				}
				continue
			}
			// rules are additive: the value is taken from ONE of the overlapping rules, chosen at random
			r := rapid.SampledFrom(ce.rules[a]).Draw(t, "rule")
			isURL := m.parseURLs && urlPos[ce.name] == a
			var cands []string
			if isURL {
				pool := canonURLs
				if rapid.IntRange(0, 11).Draw(t, "emptyFragment") == 0 {
					pool = emptyFragmentURLs
				}
				for _, u := range pool {
					if m.urlConforms(u) && (r.re == nil || r.re.MatchString(u)) {
						cands = append(cands, u)
					}
				}
			} else {
				cands = samplesFor(r)
			}
			if len(cands) == 0 {
				continue
			}
			used[a] = true
			attrs = append(attrs, html.Attribute{Key: a, Val: rapid.SampledFrom(cands).Draw(t, "av")})
			if len(ce.rules[a]) >= 2 {
				multiRule = true
			}
		}
		// custom data attributes: with AllowDataAttributes every well-formed data-* name is conforming on
		// every allowed element, also one that holds "data-" more than once (seeded C07-13)
		if m.dataAttrs && rapid.IntRange(0, 3).Draw(t, "dataattr") == 0 {
			k := rapid.SampledFrom(conformDataNames).Draw(t, "dataname")
			if !used[k] && wellFormedData(k) {
				used[k] = true
				attrs = append(attrs, html.Attribute{Key: k, Val: rapid.SampledFrom([]string{"1", "", "k v", "data-x", "a-b_c"}).Draw(t, "dataval")})
			}
		}
		if len(attrs) == 0 && !m.MayBeBare(ce.name) {
			continue
		}
		if !ce.explicit {
			patternEl = true
		}
		toks = append(toks, html.Token{Type: html.StartTagToken, Data: ce.name, Attr: attrs})
		if voidEls[ce.name] {
			continue
		}
		txt := rapid.SampledFrom([]string{"text", "a&b", "1 < 2", "plain", "q\"uote's", "é😀"}).Draw(t, "tx")
		if rawTextEls[ce.name] && ce.name != "title" && ce.name != "textarea" {
			// the content of xmp, iframe, noembed, noframes, noscript is raw text: what stands there is
			// what is shown, character references are not decoded (known finding D66 when it holds one
			// of & < > " ')
			txt = rapid.SampledFrom([]string{"plain", "plain", "a & b", "1 < 2", "<b>x</b>", "it's \"q\""}).Draw(t, "rawtx")
		}
		toks = append(toks, html.Token{Type: html.TextToken, Data: txt})
		if rawTextEls[ce.name] || rapid.Bool().Draw(t, "close") {
			toks = append(toks, html.Token{Type: html.EndTagToken, Data: ce.name})
		} else {
			open = append(open, ce.name)
		}
	}
	for i := len(open) - 1; i >= 0; i-- {
		toks = append(toks, html.Token{Type: html.EndTagToken, Data: open[i]})
	}
	var sb strings.Builder
	rawOpen := false
	for _, tk := range toks {
		if tk.Type == html.TextToken && rawOpen {
			sb.WriteString(tk.Data) // raw text is written as it is
		} else {
			sb.WriteString(tk.String())
		}
		rawOpen = tk.Type == html.StartTagToken && rawTextEls[tk.Data] && tk.Data != "title" && tk.Data != "textarea"
	}
	doc = sb.String()
	return doc, multiRule, patternEl, strings.TrimSpace(doc) != ""
}

// genConformStyle: a canonical style string ("prop: value; prop: value") made of declarations
// that a rule applying to el (documented reading) accepts.
func genConformStyle(t *rapid.T, m *Model, el string) string {
	props := plainStyleVocabulary(m)
	var ds []string
	n := rapid.IntRange(1, 3).Draw(t, "nsd")
	for i := 0; i < n && len(props) > 0; i++ {
		prop := rapid.SampledFrom(props).Draw(t, "sp")
		rules := mustKeepRules(m, el, prop)
		if len(rules) == 0 {
			continue
		}
		ru := rapid.SampledFrom(rules).Draw(t, "sr")
		val := rapid.SampledFrom(ruleSamples(ru, true)).Draw(t, "sv")
		if ru.kind == "" && (prop == "font-family" || prop == "grid-template-areas") && rapid.Bool().Draw(t, "quotedSample") {
			// white space inside a quoted string is significant
			val = rapid.SampledFrom([]string{"'foo  bar'", "'a   b'", "'times new  roman'"}).Draw(t, "quoted")
		}
		if !cleanStyleValue.MatchString(val) || !ru.accepts(strings.ToLower(val)) {
			continue
		}
		ds = append(ds, prop+": "+val)
	}
	return strings.Join(ds, "; ")
}

func forcedAttr(m *Model, el, key string) bool {
	switch {
	case key == "rel" && m.linkOptions() && (el == "a" || el == "area" || el == "link" || el == "base"):
		return true
	case key == "target" && el == "a" && m.targetBlank:
		return true
	case key == "crossorigin" && m.crossOrigin && (el == "audio" || el == "img" || el == "image" || el == "link" || el == "script" || el == "video"):
		return true
	case key == "sandbox" && el == "iframe" && m.sandbox != nil:
		return true
	case key == "src" && m.rewriter >= 0 && m.parseURLs && srcRewritePos[el]:
		return true
	}
	return false
}

func stripForced(m *Model, t tok) ([]html.Attribute, bool) {
	var out []html.Attribute
	stripped := false
	for _, a := range t.Attr {
		if forcedAttr(m, t.Name, a.Key) {
			stripped = true
			continue
		}
		out = append(out, a)
	}
	return out, stripped
}

// sameModuloForced: identical token streams after removing the attributes the policy instructs
// the sanitiser to add or rewrite. affected reports whether any such attribute was involved.
func sameModuloForced(m *Model, in, out string) (affected bool, err error) {
	it, ot := tokenize(in), tokenize(out)
	if len(it) != len(ot) {
		return false, violation(out, "C07: the conforming document has %d tokens, the output %d", len(it), len(ot))
	}
	for i := range it {
		a, b := it[i], ot[i]
		if a.Type != b.Type || a.Name != b.Name {
			return false, violation(out, "C07: token %d differs: %v %s became %v %s", i, a.Type, q(trunc(a.Name, 80)), b.Type, q(trunc(b.Name, 80)))
		}
		if isTag(a) {
			x, s1 := stripForced(m, a)
			y, s2 := stripForced(m, b)
			if s1 || s2 || subjectToForced(m, a) {
				affected = true
			}
			if len(x) != len(y) {
				return affected, violation(out, "C07: <%s> carries attributes %v in the conforming document but %v in the output", a.Name, x, y)
			}
			for j := range x {
				if x[j] != y[j] {
					return affected, violation(out, "C07: attribute %s=%s on <%s> became %s=%s", x[j].Key, q(x[j].Val), a.Name, y[j].Key, q(y[j].Val))
				}
			}
		}
	}
	return affected, nil
}

// subjectToForced: may the sanitiser add attributes to this element?
func subjectToForced(m *Model, t tok) bool {
	if !isOpenTag(t) {
		return false
	}
	switch t.Name {
	case "a", "area", "link", "base":
		if m.linkOptions() {
			return true
		}
	}
	switch t.Name {
	case "audio", "img", "image", "link", "script", "video":
		if m.crossOrigin {
			return true
		}
	}
	return t.Name == "iframe" && m.sandbox != nil
}

func genC07(t *rapid.T) *Case {
	kinds := append([]string{}, defaultOpKinds...)
	for i := 0; i < 8; i++ {
		kinds = append(kinds, "AllowAttrs")
	}
	kinds = append(kinds, "AllowElementsMatching", "AllowElementsMatching", "AllowStyles", "AllowStyles", "AllowNoAttrs")
	spec := genSpec(t, &SpecOpts{Kinds: kinds, MaxOps: 12})
	m := BuildModel(spec)
	doc, multi, pat, ok := genConform(t, m)
	c := &Case{Spec: spec, Input: BStr(doc)}
	if !ok {
		c.Kind = "empty-vocabulary"
	}
	if multi {
		c.Ints = append(c.Ints, 1)
	} else {
		c.Ints = append(c.Ints, 0)
	}
	if pat {
		c.Ints = append(c.Ints, 1)
	} else {
		c.Ints = append(c.Ints, 0)
	}
	c.Ints = append(c.Ints, drawStage(t, spec))
	return c
}

// hasMarkupCharsInRawText: does the document hold a raw-text element (not RCDATA) whose text
// contains one of & < > " ' ?
func hasMarkupCharsInRawText(doc string) bool {
	toks := tokenize(doc)
	for i, t := range toks {
		if t.Type == html.StartTagToken && rawTextEls[t.Name] && t.Name != "title" && t.Name != "textarea" && i+1 < len(toks) && toks[i+1].Type == html.TextToken {
			if strings.ContainsAny(toks[i+1].Raw, "&<>\"'") {
				return true
			}
		}
	}
	return false
}

func checkC07(c *Case, r *Rec) error {
	if c.Kind == "empty-vocabulary" || strings.TrimSpace(string(c.Input)) == "" {
		r.Class("empty_vocabulary_or_document")
		return nil
	}
	m := BuildModel(c.Spec)
	in := string(c.Input)
	out, _ := sanitizeStaged(c.Spec, in, stageOf(c, 2))
	if stageOf(c, 2) >= 0 {
		r.Class("policy_extended_after_first_use")
	}
	if c.Kind != "strict-replay" && hasMarkupCharsInRawText(in) && knownClassEnabled("C07", "markup_characters_inside_an_allowed_raw_text_element") {
		// known finding D66: the text of an allowed xmp / iframe / noembed / noframes / noscript is
		// written escaped although it is raw text for whoever reads the output
		if affected, err := sameModuloForced(m, in, out); err != nil || (!affected && out != in) {
			r.Excluded("markup_characters_inside_an_allowed_raw_text_element")
			return nil
		}
	}
	if c.Kind != "strict-replay" && hasEmptyFragmentURL(in) && knownClassEnabled("C07", "url_with_empty_fragment") {
		if affected, err := sameModuloForced(m, in, out); err != nil || (!affected && out != in) {
			r.Excluded("url_with_empty_fragment")
			return nil
		}
	}
	affected, err := sameModuloForced(m, in, out)
	if err != nil {
		return err
	}
	if !affected && out != in {
		return violation(out, "C07: no element of the conforming document is subject to added or rewritten attributes, yet the output is not byte-identical")
	}
	if affected {
		r.Class("has_element_subject_to_forced_attributes")
	} else {
		r.Class("byte_for_byte")
	}
	multi := len(c.Ints) > 0 && c.Ints[0] == 1
	pat := len(c.Ints) > 1 && c.Ints[1] == 1
	if multi {
		r.Class("attribute_covered_by_two_or_more_rules")
	}
	if pat {
		r.Class("pattern_matched_element")
	}
	if strings.Contains(in, " style=") {
		r.Class("has_style_attribute")
	}
	if multi || pat {
		r.NonTrivial(c.Spec.String()+"\x00"+in, func() any {
			return map[string]any{"policy": c.Spec.String(), "conforming_document": q(trunc(in, 400)), "byte_identical": out == in}
		})
	}
	return nil
}

func init() { register(&Prop{ID: "C07", Gen: genC07, Check: checkC07}) }

var _ = bluemonday.NewPolicy

// names of custom data attributes a conforming document may use under AllowDataAttributes
var conformDataNames = []string{"data-x", "data-x-y", "data-1", "data--", "data-data-x", "data-user-data-id", "data-metadata-key", "data-a.b", "data-a_b",
	"data-\u00e9", "data-data-", "data-x-data-", "data-ondata-click"}
