package props

import (
	"strings"

	"golang.org/x/net/html"
	"pgregory.net/rapid"
)

// C08 — content of disallowed invisible-content elements is removed.
// C09 — well-nested input yields well-nested output.
// Both work on well-formed generated trees.

var skipBiasKinds = func() []string {
	k := append([]string{}, defaultOpKinds...)
	for i := 0; i < 6; i++ {
		k = append(k, "SkipElementsContent", "AllowElementsContent")
	}
	k = append(k, "AllowElementsMatching", "AllowElementsMatching", "AllowElementsMatching", "AllowNoAttrs", "AddSpaceWhenStrippingTag", "AllowComments", "AllowComments", "AllowComments")
	return k
}()

func genTreeCase(t *rapid.T) *Case { return genTreeCaseWith(t, false) }

// genTreeCaseC09: C09 quantifies over all policies, so now and then AllowUnsafe is on, with
// script / style allowed, allowed only with attributes, or merely taken out of the skip set.
func genTreeCaseC09(t *rapid.T) *Case { return genTreeCaseWith(t, true) }

func genTreeCaseWith(t *rapid.T, mayBeUnsafe bool) *Case {
	spec := genSpec(t, &SpecOpts{Kinds: skipBiasKinds})
	extra := []string{"object", "title", "iframe", "noscript", "frame", "frame", "my-x", "x-a-y", "a", "b", "img", "img", "input", "br"}
	if mayBeUnsafe && rapid.IntRange(0, 4).Draw(t, "unsafe") == 0 {
		spec.Ops = append(spec.Ops, Op{Kind: "AllowUnsafe", B: true, ValRe: -1})
		for _, o := range []Op{
			{Kind: "AllowElementsContent", Names: []string{"script", "style"}, ValRe: -1},
			{Kind: "AllowElements", Names: []string{"style"}, ValRe: -1},
			{Kind: "AllowElements", Names: []string{"script", "b", "i"}, ValRe: -1},
			{Kind: "AllowAttrs", Attrs: []string{"src", "type"}, Scope: "els", Names: []string{"script"}, ValRe: -1},
		} {
			if rapid.Bool().Draw(t, "unsafeop") {
				spec.Ops = append(spec.Ops, o)
			}
		}
		extra = append(extra, "script", "style", "script", "style", "script", "style")
	}
	m := BuildModel(spec)
	in := genTree(t, m, &treeOpts{extraEls: extra, depth: 5, comments: true, voidEnds: true, selfClose: true})
	return &Case{Spec: spec, Input: BStr(in), Kind: "tree", Ints: []int{drawStage(t, spec)}}
}

// voidEndTagsPaired: the generator writes the end tag of a void element only right after its start
// tag, so an output in which some </v> is not directly preceded by a <v ...> kept the end tag of a
// start tag it removed.
func voidEndTagsPaired(toks []tok) (string, bool) {
	for i, t := range toks {
		if t.Type == html.EndTagToken && voidEls[t.Name] {
			if i == 0 || (toks[i-1].Type != html.StartTagToken && toks[i-1].Type != html.SelfClosingTagToken) || toks[i-1].Name != t.Name {
				return t.Name, false
			}
		}
	}
	return "", true
}

type regionInfo struct {
	hidden, visible   []string       // markers in text
	hiddenC, visibleC []string       // markers in comments
	visTags           map[string]int // tag name -> number of tags (start+end+selfclosing) outside hidden regions
	maxHiddenDepth    int
	allowedInHidden   bool
	nSkipRegions      int
}

// regions derives, from the reference tokenisation of a well-nested input, which markers sit
// inside a disallowed skip-content element (or script/style).
func regions(m *Model, toks []tok) regionInfo {
	ri := regionInfo{visTags: map[string]int{}}
	type frame struct {
		name   string
		hiding bool
	}
	var st []frame
	hiddenDepth := 0
	for _, t := range toks {
		switch t.Type {
		case html.StartTagToken:
			hides := t.Name == "script" || t.Name == "style" || (!m.ElementAllowed(t.Name) && m.skip[t.Name])
			if hiddenDepth == 0 && !hides {
				ri.visTags[t.Name]++
			}
			if hiddenDepth > 0 && m.ElementAllowed(t.Name) {
				ri.allowedInHidden = true
			}
			if voidEls[t.Name] {
				continue
			}
			st = append(st, frame{t.Name, hides})
			if hides {
				hiddenDepth++
				ri.nSkipRegions++
				if hiddenDepth > ri.maxHiddenDepth {
					ri.maxHiddenDepth = hiddenDepth
				}
			}
		case html.EndTagToken:
			if voidEls[t.Name] {
				// <img></img>: the end tag of a void element closes nothing
				if hiddenDepth == 0 {
					ri.visTags[t.Name]++
				}
				continue
			}
			if len(st) > 0 {
				f := st[len(st)-1]
				st = st[:len(st)-1]
				if f.hiding {
					hiddenDepth--
				} else if hiddenDepth == 0 {
					ri.visTags[t.Name]++
				}
			}
		case html.SelfClosingTagToken:
			if hiddenDepth == 0 {
				ri.visTags[t.Name]++
			}
		case html.TextToken:
			for _, mk := range markersIn(t.Name) {
				if hiddenDepth > 0 {
					ri.hidden = append(ri.hidden, mk)
				} else {
					ri.visible = append(ri.visible, mk)
				}
			}
		case html.CommentToken:
			for _, mk := range markersIn(t.Name) {
				if hiddenDepth > 0 {
					ri.hiddenC = append(ri.hiddenC, mk)
				} else {
					ri.visibleC = append(ri.visibleC, mk)
				}
			}
		}
	}
	return ri
}

func checkC08(c *Case, r *Rec) error {
	m := BuildModel(c.Spec)
	in := string(c.Input)
	if err := balanced(in); err != nil {
		return nil // not in the property's domain (well-formed input)
	}
	out, _ := sanitizeStaged(c.Spec, in, stageOf(c, 0))
	if stageOf(c, 0) >= 0 {
		r.Class("policy_extended_after_first_use")
	}
	inToks, outToks := tokenize(in), tokenize(out)
	ri := regions(m, inToks)
	for _, mk := range ri.hidden {
		if strings.Contains(out, mk) {
			return violation(out, "C08: text %s sits inside a disallowed skip-content element of the input but appears in the output", mk)
		}
	}
	for _, mk := range ri.visible {
		if n := strings.Count(out, mk); n != 1 {
			return violation(out, "C08: text %s sits outside every skipped element but appears %d times in the output", mk, n)
		}
	}
	for _, mk := range ri.hiddenC {
		if strings.Contains(out, mk) {
			return violation(out, "C08: comment %s sits inside a disallowed skip-content element of the input but appears in the output", mk)
		}
	}
	for _, mk := range ri.visibleC {
		n := strings.Count(out, mk)
		if m.comments && n != 1 {
			return violation(out, "C08: comment %s sits outside every skipped element and comments are allowed, but it appears %d times in the output", mk, n)
		}
		if !m.comments && n != 0 {
			return violation(out, "C08: comment %s appears in the output although comments are not allowed", mk)
		}
	}
	if len(ri.hiddenC) > 0 && m.comments {
		r.Class("comment_inside_skip_region_with_comments_allowed")
	}
	outTags := map[string]int{}
	for _, t := range outToks {
		if isTag(t) {
			outTags[t.Name]++
		}
	}
	for name, n := range outTags {
		if n > ri.visTags[name] {
			return violation(out, "C08: %d <%s> tags in the output but only %d outside skipped elements in the input (markup from a skipped region leaked)", n, name, ri.visTags[name])
		}
	}
	if ri.nSkipRegions > 0 {
		r.Class("has_skip_region")
	}
	if ri.maxHiddenDepth >= 2 {
		r.Class("nested_skip_regions")
	}
	if ri.allowedInHidden {
		r.Class("allowed_element_inside_skip_region")
	}
	for e := range m.skip {
		if voidEls[e] && !m.ElementAllowed(e) {
			r.Class("policy_skips_a_void_element")
			break
		}
	}
	if len(ri.hidden) > 0 && len(ri.visible) > 0 && (ri.maxHiddenDepth >= 2 || ri.allowedInHidden) {
		r.NonTrivial(c.Spec.String()+"\x00"+in, func() any {
			return map[string]any{"policy": c.Spec.String(), "input": q(trunc(in, 400)), "output": q(trunc(out, 300)), "hidden_markers": len(ri.hidden), "visible_markers": len(ri.visible)}
		})
	}
	return nil
}

func checkC09(c *Case, r *Rec) error {
	m := BuildModel(c.Spec)
	in := string(c.Input)
	if err := balanced(in); err != nil {
		return nil // not well-nested: outside the property
	}
	out, _ := sanitizeStaged(c.Spec, in, stageOf(c, 0))
	if err := balanced(out); err != nil {
		return violation(out, "C09: input is well nested, output is not: %v", err)
	}
	if _, ok := voidEndTagsPaired(tokenize(in)); ok {
		if name, ok := voidEndTagsPaired(tokenize(out)); !ok {
			return violation(out, "C09: the start tag of the void element <%s> was removed but its end tag </%s> is still there", name, name)
		}
	}
	if m.unsafe {
		r.Class("allow_unsafe")
	}
	// classification
	inToks := tokenize(in)
	droppedBareWithKids, sameName := false, false
	var st []string
	for i, t := range inToks {
		switch t.Type {
		case html.StartTagToken:
			if voidEls[t.Name] {
				continue
			}
			for _, s := range st {
				if s == t.Name {
					sameName = true
				}
			}
			st = append(st, t.Name)
			if m.ElementAllowed(t.Name) && !m.MayBeBare(t.Name) && i+1 < len(inToks) && inToks[i+1].Type == html.StartTagToken {
				droppedBareWithKids = true
			}
		case html.EndTagToken:
			if len(st) > 0 {
				st = st[:len(st)-1]
			}
		}
	}
	hasTag := false
	for _, t := range tokenize(out) {
		if isTag(t) {
			hasTag = true
		}
	}
	if sameName {
		r.Class("same_name_nesting")
	}
	if droppedBareWithKids {
		r.Class("needs_attrs_element_with_element_child")
	}
	if m.spaces {
		r.Class("spaces_on")
	}
	if hasTag && (sameName || droppedBareWithKids) {
		r.NonTrivial(c.Spec.String()+"\x00"+in, func() any {
			return map[string]any{"policy": c.Spec.String(), "input": q(trunc(in, 400)), "output": q(trunc(out, 300))}
		})
	}
	return nil
}

func init() {
	register(&Prop{ID: "C08", Gen: genTreeCase, Check: checkC08})
	register(&Prop{ID: "C09", Gen: genTreeCaseC09, Check: checkC09})
}
