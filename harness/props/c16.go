package props

import (
	"bytes"
	"errors"
	"fmt"
	"io"
	"strings"

	"pgregory.net/rapid"
)

// C16 — I/O failures are reported and the output stays a clean prefix.
// Fault enumeration: for each generated (policy, input) EVERY write index and EVERY read offset
// is failed, in every failure mode.

var errBoom = errors.New("injected fault")

// recW records the fault-free write sequence.
type recW struct{ writes []string }

func (w *recW) Write(p []byte) (int, error) {
	w.writes = append(w.writes, string(p))
	return len(p), nil
}

type recSW struct{ recW }

func (w *recSW) WriteString(s string) (int, error) {
	w.writes = append(w.writes, s)
	return len(s), nil
}

// faultW fails the k-th write (0-based). perm: every later write fails too. short: the failing
// write accepts half of its bytes before reporting the error.
type faultW struct {
	k          int
	perm       bool
	short      bool
	n          int
	after      int // calls observed after the failing one
	buf        bytes.Buffer
	failedOnce bool
}

func (w *faultW) write(p []byte) (int, error) {
	idx := w.n
	w.n++
	if idx > w.k {
		w.after++
	}
	if idx == w.k || (w.perm && idx > w.k) {
		if w.short && idx == w.k {
			h := len(p) / 2
			w.buf.Write(p[:h])
			return h, w.failErr()
		}
		return 0, w.failErr()
	}
	return w.buf.Write(p)
}

// the error a failing destination reports: a plain error, io.ErrShortWrite (what a writer that
// accepted fewer bytes typically reports) or io.ErrClosedPipe
var destErrors = []error{errBoom, io.ErrShortWrite, io.ErrClosedPipe}

func (w *faultW) failErr() error { return destErrors[w.k%len(destErrors)] }

func (w *faultW) Write(p []byte) (int, error) { return w.write(p) }

type faultSW struct{ faultW }

func (w *faultSW) WriteString(s string) (int, error) { return w.write([]byte(s)) }

// failR delivers data[:len] and then fails with a non-EOF error; withData: the error arrives
// together with the last chunk.
type failR struct {
	data     []byte
	chunk    int
	withData bool
	err      error
}

// the errors a failing source reports: a plain error, one that wraps io.EOF (a transport's
// "body truncated: EOF") and io.ErrUnexpectedEOF; only io.EOF itself means a graceful end
var sourceErrors = []error{errBoom, fmt.Errorf("body truncated: %w", io.EOF), io.ErrUnexpectedEOF}

func (r *failR) Read(p []byte) (int, error) {
	if r.err == nil {
		r.err = errBoom
	}
	if len(r.data) == 0 {
		return 0, r.err
	}
	n := len(r.data)
	if r.chunk > 0 && n > r.chunk {
		n = r.chunk
	}
	if n > len(p) {
		n = len(p)
	}
	copy(p, r.data[:n])
	r.data = r.data[n:]
	if len(r.data) == 0 && r.withData {
		return n, r.err
	}
	return n, nil
}

func writeKind(s string) string {
	switch {
	case strings.HasPrefix(s, "<!--"):
		return "comment"
	case strings.HasPrefix(s, "</"):
		return "end_tag"
	case strings.HasPrefix(s, "<"):
		return "start_tag"
	case s == " ":
		return "space_or_text"
	default:
		return "text"
	}
}

func genC16(t *rapid.T) *Case {
	kinds := append([]string{}, defaultOpKinds...)
	kinds = append(kinds, "AllowComments", "AllowComments", "AllowComments", "AddSpaceWhenStrippingTag", "AddSpaceWhenStrippingTag", "AllowElements", "AllowElements")
	spec := genSpec(t, &SpecOpts{Kinds: kinds})
	m := BuildModel(spec)
	in := genSoup(t, m, &soupOpts{maxFrags: 10})
	if rapid.IntRange(0, 5).Draw(t, "skipTail") == 0 {
		// a removed element whose content is skipped and which (plaintext: by definition; the others:
		// when left open) swallows the rest of the input: a fault in that unwritten tail still counts
		names := subset(t, []string{"plaintext", "xmp", "textarea", "noscript", "svg", "template", "select", "my-x", "title"}, 1, 3, "skipName")
		spec.Ops = append(spec.Ops, Op{Kind: "SkipElementsContent", Names: names, ValRe: -1})
		m = BuildModel(spec)
		in = genSoup(t, m, &soupOpts{maxFrags: 5}) + "<" + strings.ToLower(names[0]) + ">" + genSoup(t, m, &soupOpts{maxFrags: 5})
	}
	return &Case{Spec: spec, Input: BStr(in)}
}

func checkC16(c *Case, r *Rec) error {
	in := string(c.Input)
	p := Build(c.Spec, nil)
	rec := &recW{}
	if err := p.SanitizeReaderToWriter(strings.NewReader(in), rec); err != nil {
		return nil // the fault-free run itself fails (tokenizer error): nothing to compare with
	}
	recS := &recSW{}
	if err := p.SanitizeReaderToWriter(strings.NewReader(in), recS); err != nil {
		return violation("", "C16: fault-free run fails with a WriteString destination only: %v", err)
	}
	full := strings.Join(rec.writes, "")
	if strings.Join(recS.writes, "") != full {
		return violation(full, "C16: fault-free output differs between writer kinds")
	}
	kinds := map[string]bool{}
	faults := 0
	for k := range rec.writes {
		kinds[writeKind(rec.writes[k])] = true
		want := strings.Join(rec.writes[:k], "")
		for mode := 0; mode < 8; mode++ {
			perm, short, sw := mode&1 != 0, mode&2 != 0, mode&4 != 0
			var fw *faultW
			var w io.Writer
			if sw {
				x := &faultSW{faultW{k: k, perm: perm, short: short}}
				fw, w = &x.faultW, x
			} else {
				fw = &faultW{k: k, perm: perm, short: short}
				w = fw
			}
			err := p.SanitizeReaderToWriter(strings.NewReader(in), w)
			faults++
			r.Class("fault_at:" + writeKind(rec.writes[k]))
			desc := func() string {
				return "write " + itoa(k) + "/" + itoa(len(rec.writes)) + " " + q(trunc(rec.writes[k], 60)) + " (permanent=" + bstr(perm) + " short=" + bstr(short) + " WriteString=" + bstr(sw) + ")"
			}
			if err == nil {
				return violation(full, "C16: nil error although %s failed", desc())
			}
			if fw.after != 0 {
				return violation(full, "C16: %d further writes after the failure of %s", fw.after, desc())
			}
			acc := fw.buf.String()
			wantAcc := want
			if short {
				wantAcc += rec.writes[k][:len(rec.writes[k])/2]
			}
			if acc != wantAcc {
				return violation(full, "C16: bytes accepted before the failure of %s are %q, expected the prefix %q", desc(), trunc(acc, 200), trunc(wantAcc, 200))
			}
			if !strings.HasPrefix(full, acc) {
				return violation(full, "C16: accepted bytes are not a prefix of the fault-free output")
			}
		}
	}
	// reader faults at every byte offset
	for j := 0; j <= len(in); j++ {
		for mode := 0; mode < 4; mode++ {
			withData, chunk := mode&1 != 0, 0
			if mode&2 != 0 {
				chunk = 3
			}
			if j == 0 && withData {
				continue
			}
			faults++
			serr := sourceErrors[(j+mode)%len(sourceErrors)]
			rd := &failR{data: []byte(in[:j]), withData: withData, chunk: chunk, err: serr}
			if err := p.SanitizeReaderToWriter(rd, &bytes.Buffer{}); err == nil {
				return violation("", "C16: SanitizeReaderToWriter returned nil although the source failed with %q at offset %d (error with data=%v, chunk=%d)", serr, j, withData, chunk)
			}
			rd = &failR{data: []byte(in[:j]), withData: withData, chunk: chunk, err: serr}
			if b := p.SanitizeReader(rd); b == nil || b.Len() != 0 {
				got := ""
				if b != nil {
					got = b.String()
				}
				return violation(got, "C16: SanitizeReader returned %q although the source failed at offset %d", trunc(got, 100), j)
			}
		}
	}
	r.EvalN(faults) // every injected fault is an execution
	r.ClassN("faults_injected", faults)
	if len(rec.writes) >= 4 && len(kinds) >= 3 {
		r.NonTrivial(c.Spec.String()+"\x00"+in, func() any {
			return map[string]any{"policy": c.Spec.String(), "input": q(trunc(in, 300)), "fault_free_writes": len(rec.writes), "faults_injected_for_this_case": faults}
		})
	}
	return nil
}

func bstr(b bool) string {
	if b {
		return "true"
	}
	return "false"
}

func init() { register(&Prop{ID: "C16", Gen: genC16, Check: checkC16}) }
