package props

import (
	"io"
	"strings"

	"golang.org/x/net/html"
	"pgregory.net/rapid"
)

// C06 — text is preserved exactly and always emitted escaped.

var rawTextSix = []string{"iframe", "noembed", "noframes", "noscript", "plaintext", "xmp"}

func allowsRawText(m *Model) bool {
	for _, e := range rawTextSix {
		if m.ElementAllowed(e) {
			return true
		}
	}
	return false
}

// genSpecNoRawText builds a spec op by op and drops every op that would make one of the six
// raw-text elements allowed (construction instead of rejection). Returns how many were dropped.
func genSpecNoRawText(t *rapid.T, o *SpecOpts) (*Spec, int) {
	spec := genSpec(t, o)
	kept := &Spec{Base: spec.Base}
	dropped := 0
	for _, op := range spec.Ops {
		kept.Ops = append(kept.Ops, op)
		if allowsRawText(BuildModel(kept)) {
			kept.Ops = kept.Ops[:len(kept.Ops)-1]
			dropped++
		}
	}
	return kept, dropped
}

func genC06(t *rapid.T) *Case {
	kinds := append([]string{}, defaultOpKinds...)
	kinds = append(kinds, "AddSpaceWhenStrippingTag", "AddSpaceWhenStrippingTag", "AddSpaceWhenStrippingTag", "AllowElementsContent", "AllowElementsContent", "AllowComments")
	spec, dropped := genSpecNoRawText(t, &SpecOpts{Kinds: kinds})
	m := BuildModel(spec)
	if rapid.IntRange(0, 5).Draw(t, "unsafe") == 0 {
		// AllowUnsafe only concerns script and style, of which the inputs here are free
		spec.Ops = append(spec.Ops, Op{Kind: "AllowUnsafe", B: true, ValRe: -1})
	}
	if rapid.IntRange(0, 5).Draw(t, "voidSkip") == 0 {
		// void elements have no content: naming them (in any letter case) in the skip set must not
		// open a skipped region, so inputs that use them stay inside the property's input class
		spec.Ops = append(spec.Ops, Op{Kind: "SkipElementsContent", ValRe: -1,
			Names: subset(t, []string{"BR", "Img", "HR", "Input", "LINK", "br", "img", "hr", "Embed"}, 1, 3, "voidSkipName")})
		m = BuildModel(spec)
	}
	els := []string{"textarea", "title", "xmp", "b", "i", "p", "pre", "listing", "img", "input", "hr", "link", "br"}
	in := genSoup(t, m, &soupOpts{els: els})
	if rapid.IntRange(0, 5).Draw(t, "corpusInput") == 0 {
		in = genCorpusMutation(t)
	}
	if rapid.IntRange(0, 7).Draw(t, "voidThenItsName") == 0 {
		// text that equals the name of the void element just before it (<img>img): the tag may go,
		// the word stays
		v := rapid.SampledFrom([]string{"img", "input", "br", "hr", "link", "meta", "area"}).Draw(t, "voidName")
		in += "<" + v + ">" + v + rapid.SampledFrom([]string{"", " tail", "</" + v + ">" + v}).Draw(t, "voidTail")
	}
	via := 0
	if rapid.IntRange(0, 3).Draw(t, "viaReader") == 0 {
		via = 1 // through SanitizeReader with a reader that has no Len()
	}
	if rapid.IntRange(0, 150).Draw(t, "bigToken") == 0 {
		// one very large text token (well above any internal buffer size), entity-rich or plain
		unit := rapid.SampledFrom([]string{"lorem ipsum ", "a&amp;b ", "x", "&lt;i&gt;", "\"quoted\" "}).Draw(t, "unit")
		n := rapid.IntRange(1, 150000/len(unit)).Draw(t, "reps")
		in = "<p>" + strings.Repeat(unit, n) + "</p>" + in
	}
	return &Case{Spec: spec, Input: BStr(in), Ints: []int{dropped, via}}
}

type sym struct {
	tag  bool
	typ  html.TokenType
	name string
	b    byte
}

func flatten(toks []tok) []sym {
	var out []sym
	for _, t := range toks {
		switch t.Type {
		case html.TextToken:
			for i := 0; i < len(t.Name); i++ {
				out = append(out, sym{b: t.Name[i]})
			}
		case html.StartTagToken, html.EndTagToken, html.SelfClosingTagToken:
			out = append(out, sym{tag: true, typ: t.Type, name: t.Name})
		}
	}
	return out
}

// sameTagClass: start and self-closing tags are both opening tags (a sanitiser may re-serialise
// one as the other); end tags are their own class.
func sameTagClass(a, b html.TokenType) bool {
	return (a == html.EndTagToken) == (b == html.EndTagToken)
}

func symStr(s []sym, from int) string {
	var sb strings.Builder
	for i := from; i < len(s) && i < from+40; i++ {
		if s[i].tag {
			sb.WriteString("[" + s[i].typ.String() + " " + s[i].name + "]")
		} else {
			sb.WriteByte(s[i].b)
		}
	}
	return q(sb.String())
}

// exactWalk: the output must be derivable from the input by keeping each tag or deleting it
// (replacing it by exactly one space when spaces are on); text bytes are untouched.
func exactWalk(in, out []sym, spaces bool) (ok bool, why string) {
	j := 0
	for i, s := range in {
		if !s.tag {
			if j < len(out) && !out[j].tag && out[j].b == s.b {
				j++
				continue
			}
			return false, "input text at symbol " + itoa(i) + " " + symStr(in, i) + " is not reproduced; output continues with " + symStr(out, j)
		}
		if j < len(out) && out[j].tag && sameTagClass(out[j].typ, s.typ) && out[j].name == s.name {
			j++ // kept
			continue
		}
		if spaces {
			if j < len(out) && !out[j].tag && out[j].b == ' ' {
				j++
				continue
			}
			return false, "removed tag [" + s.typ.String() + " " + s.name + "] is not replaced by exactly one space; output continues with " + symStr(out, j)
		}
	}
	if j != len(out) {
		return false, "output has extra content " + symStr(out, j)
	}
	return true, ""
}

// weakWalk: the output is a subsequence of the input symbols, where a removed tag may stand for
// one space when spaces are on: nothing is invented, no input text becomes markup.
func weakWalk(in, out []sym, spaces bool) (bool, string) {
	i := 0
	for j, o := range out {
		found := false
		for i < len(in) {
			s := in[i]
			i++
			if o.tag {
				if s.tag && sameTagClass(s.typ, o.typ) && s.name == o.name {
					found = true
					break
				}
			} else {
				if !s.tag && s.b == o.b {
					found = true
					break
				}
				if spaces && s.tag && o.b == ' ' {
					found = true
					break
				}
			}
		}
		if !found {
			return false, "output symbol " + itoa(j) + " " + symStr(out, j) + " has no counterpart in the rest of the input"
		}
	}
	return true, ""
}

func itoa(i int) string {
	if i == 0 {
		return "0"
	}
	neg := i < 0
	if neg {
		i = -i
	}
	var b [20]byte
	n := len(b)
	for i > 0 {
		n--
		b[n] = byte('0' + i%10)
		i /= 10
	}
	if neg {
		n--
		b[n] = '-'
	}
	return string(b[n:])
}

// numericReferenceDeviates: does some text token of the input hold a numeric character reference
// that the reference library decodes differently from the standard (class predicate of D67)?
func numericReferenceDeviates(toks []tok) bool {
	for _, t := range toks {
		if t.Type != html.TextToken {
			continue
		}
		raw := t.Raw
		for i := 0; i+1 < len(raw); i++ {
			if raw[i] != '&' || raw[i+1] != '#' {
				continue
			}
			j := i + 2
			for j < len(raw) && j < i+40 && (raw[j] == 'x' || raw[j] == 'X' || raw[j] >= '0' && raw[j] <= '9' || raw[j] >= 'a' && raw[j] <= 'f' || raw[j] >= 'A' && raw[j] <= 'F') {
				j++
			}
			if j < len(raw) && raw[j] == ';' {
				j++
			}
			end := j
			if end < len(raw) {
				end++ // one character of context: whether a digit run ends matters to both decoders
			}
			if stdDecodeText(raw[i:end]) != html.UnescapeString(raw[i:end]) {
				return true
			}
		}
	}
	return false
}

func checkC06(c *Case, r *Rec) error {
	m := BuildModel(c.Spec)
	if allowsRawText(m) {
		return nil // outside the property's policy class
	}
	in := string(c.Input)
	if m.unsafe && hasTagNamed(tokenize(in), map[string]bool{"script": true, "style": true}) {
		// with AllowUnsafe the raw text of a kept script / style element is written raw by design;
		// the property speaks of inputs free of script and style
		r.Excluded("allow_unsafe_with_script_or_style_in_the_input")
		return nil
	}
	var out string
	if len(c.Ints) > 1 && c.Ints[1] == 1 && strings.TrimSpace(in) != "" {
		out = Build(c.Spec, nil).SanitizeReader(struct{ io.Reader }{strings.NewReader(in)}).String()
		r.Class("via_SanitizeReader_opaque_reader")
	} else {
		out, _ = sanitizeSpec(c.Spec, in)
	}
	if len(in) > 60000 {
		r.Class("input_over_60KB")
	}
	inToks, outToks := tokenize(in), tokenize(out)
	fin, fout := flatten(inToks), flatten(outToks)
	fullClass := true
	removedTag, entity, rawSection := false, strings.Contains(in, "&"), false
	for _, t := range inToks {
		if isTag(t) {
			if t.Name == "script" || t.Name == "style" || (m.skip[t.Name] && !voidEls[t.Name]) {
				// (a void element has no content that could be skipped)
				fullClass = false
			}
			if rawTextEls[t.Name] {
				rawSection = true
			}
		}
	}
	nInTags, nOutTags := 0, 0
	for _, s := range fin {
		if s.tag {
			nInTags++
		}
	}
	for _, s := range fout {
		if s.tag {
			nOutTags++
		}
	}
	removedTag = nOutTags < nInTags
	if ok, why := weakWalk(fin, fout, m.spaces); !ok {
		return violation(out, "C06(weak): %s", why)
	}
	if fullClass {
		if ok, why := exactWalk(fin, fout, m.spaces); !ok {
			return violation(out, "C06(exact, spaces=%v): %s", m.spaces, why)
		}
	}
	if fullClass && !m.spaces {
		// the same equation read with the standard's decoding of numeric character references
		// (charref.go) instead of the reference library's: where the two decoders agree this adds
		// nothing, where they differ the text a browser reads has changed
		if si, so := stdTextOf(inToks), stdTextOf(outToks); si != so {
			if c.Kind != "strict-replay" && numericReferenceDeviates(inToks) && knownClassEnabled("C06", "tokenizer_decodes_numeric_reference_differently_from_standard") {
				r.Excluded("tokenizer_decodes_numeric_reference_differently_from_standard")
			} else {
				return violation(out, "C06(standard decoding): the text a standard tokenizer reads from the input is %s, from the output %s", q(trunc(si, 120)), q(trunc(so, 120)))
			}
		}
	}
	// text is always emitted escaped: the raw output contains '<' only as the first byte of a tag or
	// comment token of the reference tokenisation, never inside text
	for _, t := range outToks {
		if t.Type == html.TextToken && strings.ContainsAny(t.Raw, "<>") {
			// a '<' that the tokenizer reads as text would still be raw markup-significant bytes
			return violation(out, "C06(escaped): raw '<' or '>' inside a text run of the output: %q", t.Raw)
		}
	}
	if len(c.Ints) > 0 && c.Ints[0] > 0 {
		r.Class("spec_ops_dropped_to_stay_in_policy_class")
	}
	if fullClass {
		r.Class("full_equality_class")
	}
	if m.spaces {
		r.Class("spaces_on")
	}
	if rawSection {
		r.Class("input_has_rawtext_or_rcdata_element")
	}
	if fullClass && removedTag && (entity || rawSection) {
		r.NonTrivial(c.Spec.String()+"\x00"+in, func() any {
			return map[string]any{"policy": c.Spec.String(), "input": q(trunc(in, 300)), "output": q(trunc(out, 300))}
		})
	}
	return nil
}

func init() { register(&Prop{ID: "C06", Gen: genC06, Check: checkC06}) }
