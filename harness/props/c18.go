package props

import (
	"regexp"
	"runtime"
	"sort"
	"strings"
	"sync"

	"github.com/microcosm-cc/bluemonday"
	"github.com/microcosm-cc/bluemonday/css"
)

// C18 — default CSS value handlers accept only inert, whole values.
// Deterministic, bounded-exhaustive: seeds are discovered by enumerating short token sequences,
// then every seed is mutated with hostile fragments at every position.

var cssProps = strings.Fields(`align-content align-items align-self all animation animation-delay animation-direction animation-duration animation-fill-mode animation-iteration-count animation-name animation-play-state animation-timing-function backface-visibility background background-attachment background-blend-mode background-clip background-color background-image background-origin background-position background-repeat background-size border border-bottom border-bottom-color border-bottom-left-radius border-bottom-right-radius border-bottom-style border-bottom-width border-collapse border-color border-image border-image-outset border-image-repeat border-image-slice border-image-source border-image-width border-left border-left-color border-left-style border-left-width border-radius border-right border-right-color border-right-style border-right-width border-spacing border-style border-top border-top-color border-top-left-radius border-top-right-radius border-top-style border-top-width border-width bottom box-decoration-break box-shadow box-sizing break-after break-before break-inside caption-side caret-color clear clip color column-count column-fill column-gap column-rule column-rule-color column-rule-style column-rule-width column-span column-width columns cursor direction display empty-cells filter flex flex-basis flex-direction flex-flow flex-grow flex-shrink flex-wrap float font font-family font-kerning font-language-override font-size font-size-adjust font-stretch font-style font-synthesis font-variant font-variant-caps font-variant-position font-weight grid grid-area grid-auto-columns grid-auto-flow grid-auto-rows grid-column grid-column-end grid-column-gap grid-column-start grid-gap grid-row grid-row-end grid-row-gap grid-row-start grid-template grid-template-areas grid-template-columns grid-template-rows hanging-punctuation height hyphens image-rendering isolation justify-content left letter-spacing line-break line-height list-style list-style-image list-style-position list-style-type margin margin-bottom margin-left margin-right margin-top max-height max-width min-height min-width mix-blend-mode object-fit object-position opacity order orphans outline outline-color outline-offset outline-style outline-width overflow overflow-wrap overflow-x overflow-y padding padding-bottom padding-left padding-right padding-top page-break-after page-break-before page-break-inside perspective perspective-origin pointer-events position quotes resize right scroll-behavior tab-size table-layout text-align text-align-last text-combine-upright text-decoration text-decoration-color text-decoration-line text-decoration-style text-indent text-justify text-orientation text-overflow text-shadow text-transform top transform transform-origin transform-style transition transition-delay transition-duration transition-property transition-timing-function unicode-bidi user-select vertical-align visibility white-space widows width word-break word-spacing word-wrap writing-mode z-index`)

var cssTokens = uniq(strings.Fields(`rotate(90deg) rotate(45deg) rotatex(10deg) rotate(0.5turn) opacity(50%) calc(1px+2px) var(--x) linear-gradient(red,blue) 1e3 +1 5e-1 1.00 rgba(0,0,0,.5) currentcolor scale(1.5) translate(10%,5%) skew(10deg,5deg) hue-rotate(90deg) plus-lighter
initial inherit unset none auto normal 0 1 2 10 1.5 .5 -1 1px 2em 50% -3px 1s 200ms 0.5 1.0 red blue transparent #fff #a1b2c3 rgb(1,2,3) rgba(1,2,3,0.5) hsl(120,50%,50%) hsla(120,50%,50%,0.3)
 url(http://x.y/z.png) url("https://x.y/z") left right top bottom center middle solid dotted dashed double thin medium thick bold italic oblique small-caps serif arial 'times' "times" underline overline line-through wavy
 linear ease ease-in step-start steps(2,end) cubic-bezier(0.1,0.2,0.3,0.4) infinite alternate forwards both paused running myanim all opacity width block inline flex grid row column wrap nowrap stretch baseline flex-start
 space-between repeat no-repeat repeat-x scroll fixed border-box padding-box content-box cover contain fill round space inside outside disc circle square decimal visible hidden collapse
 pointer default text uppercase capitalize pre break-word ltr rtl embed horizontal-tb vertical-rl isolate span digits 3 / max-content min-content dense blur(5px) brightness(50%) contrast(50%) drop-shadow(1px opacity(50%)
 grayscale(50%) hue-rotate(90) invert(50%) saturate(50%) sepia(50%) matrix(1,2,3,4,5,6) translate(1px) translate(1px,2px) scale(2) rotate(90) rotatex(360) skew(10deg) perspective(10px) rect(1px,2px,3px,4px)
 "a" 'a' "«" "»" clip ellipsis smaller larger xx-small condensed weight style sub super balance avoid always page first last manual smooth pixelated mixed upright flat preserve-3d static absolute relative sticky 100 400 900
 separate show hide slice clone caption menu area1 mm 1cm 1in 1pt 1pc 1ex 1ch 1rem 1vw 1vh 1vmin 1vmax 1deg 1rad 1turn 2px) 1px) red) drop-shadow(1px drop-shadow(1px,1px) minmax(1px,2px) repeat(2,1px) fit-content(1px)
 local(arial) attr(x) counter(a) 1fr span auto-fill e-resize zoom-in table-cell list-item inline-block run-in contents sans-serif monospace cursive fantasy x-large 1.2 120% bolder lighter 700 ultra-condensed
 normal small-caption icon status-bar message-box lowercase full-width justify start end match-parent distribute inter-word inter-character sideways-right sideways use-glyph-orientation force-end allow-end
 words characters ruby all-small-caps petite-caps unicase titling-caps weight border-color 1s, ease, currentcolor invert fill-box stroke-box view-box luminance alpha add subtract intersect exclude multiply screen
 overlay darken lighten color-dodge color-burn hard-light soft-light difference exclusion hue saturation color luminosity
 "'" '"' "‹" "›" "‘" "’" "“" "”" 12px/30px 1px/2em span 2 fill stroke nonzero evenodd`))

var hostileFrags = []string{`url(javascript:alert(1))`, `url(data:text/html,x)`, `url(//evil)`, `url(ftp://x)`, `url(httpx://x)`, `url(httpjavascript:alert(1))`, `url(http://a\62)`, `expression(alert(1))`, `javascript:alert(1)`,
	`data:text/html,x`, `\65`, `\`, `<`, `>`, `</style>`, `@import`, `<script>`, `@charset`, `url(x)`, `url('javascript:alert(1)')`, `url( javascript:x )`}

var plainURLRe = regexp.MustCompile(`^["']?https?://[^\s"'()\\<>]*["']?$`)
var urlFnRe = regexp.MustCompile(`url\(([^)]*)\)?`)
var atKeywordRe = regexp.MustCompile(`@[a-z_-]`)

// hostileCSS is the property's list made executable (on the lower-cased value the handler sees).
func hostileCSS(v string) bool {
	l := strings.ToLower(v)
	if strings.ContainsAny(l, "\\<>") || atKeywordRe.MatchString(l) {
		return true
	}
	for _, s := range []string{"expression(", "javascript:", "data:"} {
		if strings.Contains(l, s) {
			return true
		}
	}
	for _, m := range urlFnRe.FindAllStringSubmatch(l, -1) {
		if !plainURLRe.MatchString(strings.TrimSpace(m[1])) {
			return true
		}
	}
	return false
}

func checkC18(c *Case, r *Rec) error {
	if len(c.Strs) != 2 {
		return nil
	}
	prop, v := string(c.Strs[0]), string(c.Strs[1])
	if c.Kind == "e2e" {
		return e2eStyle(prop, v)
	}
	h := css.GetDefaultHandler(prop)
	if c.Kind == "unknown" {
		if h(v) {
			return violation("", "C18: the handler for the unknown property %q accepts %q", prop, v)
		}
		return nil
	}
	if c.Kind == "position" {
		if h(v) {
			return violation("", "C18: the default handler for %q accepts %q: two keywords of the same axis are not a position", prop, v)
		}
		return nil
	}
	if c.Kind == "structure" {
		if structurallyImpossible(v) && h(v) {
			return violation("", "C18: the default handler for %q accepts %q, which no CSS value space contains (unbalanced bracket or quotation mark, or a '|')", prop, v)
		}
		return nil
	}
	if c.Kind == "empty-component" {
		if hasEmptyComponent(v) && h(v) {
			return violation("", "C18: the default handler for %q accepts %q, which is empty, has an empty component, or starts or ends in a Unicode space that is no CSS white space", prop, v)
		}
		return nil
	}
	if c.Kind == "non-ascii-case" {
		if (strings.Contains(v, "\u212a") || strings.Contains(v, "\u0130")) && h(v) {
			return violation("", "C18: the default handler for %q accepts %q: a keyword with a non-ASCII letter that only Unicode lower-casing turns into the ASCII one", prop, v)
		}
		return nil
	}
	if c.Kind == "edge-junk" {
		if h(v) && !cssWords[asciiLower(v)] && !cssNumber.MatchString(v) {
			return violation("", "C18: the default handler for %q accepts %q: an accepted word with another character glued to its edge", prop, v)
		}
		return nil
	}
	if c.Kind == "function-only" {
		if h(v) && !functionList.MatchString(v) {
			return violation("", "C18: the default handler for %q accepts %q, which is neither a keyword of that property nor a list of function calls", prop, v)
		}
		return nil
	}
	if c.Kind == "number" {
		if digitThenDot.MatchString(v) && h(v) {
			return violation("", "C18: the default handler for %q accepts %q, in which a number ends in a dot", prop, v)
		}
		if cssNumberLike.MatchString(v) && !cssNumber.MatchString(v) && h(v) {
			return violation("", "C18: the default handler for %q accepts %q, which is not a CSS number", prop, v)
		}
		return nil
	}
	if c.Kind == "word" {
		if h(v) && !cssWords[v] {
			return violation("", "C18: the default handler for %q accepts %q, which is not a word of any CSS value space", prop, v)
		}
		return nil
	}
	if hostileCSS(v) && h(v) {
		return violation("", "C18: the default handler for %q accepts the hostile value %q", prop, v)
	}
	return nil
}

var allHandlersPolicy = sync.OnceValue(func() *bluemonday.Policy {
	p := bluemonday.NewPolicy()
	p.AllowAttrs("style", "id").OnElements("p")
	p.AllowStyles(cssProps...).Globally()
	return p
})

// e2eStyle pushes the value through Policy.Sanitize with every default handler registered
// globally; whatever declaration comes out must not be hostile as a browser reads it.
func e2eStyle(prop, v string) error {
	in := `<p id="i" style="` + escAttr(prop+": "+v, '"') + `">t</p>`
	out := allHandlersPolicy().Sanitize(in)
	for _, tk := range tokenize(out) {
		if !isOpenTag(tk) {
			continue
		}
		if st, ok := firstAttr(tk.Attr, "style"); ok {
			for _, d := range parseDecls(st) {
				bv := cssDecode(strings.ToLower(d.Value))
				// judged as a browser reads it: escapes that decode to inert characters are fine
				if hostileCSS(bv) {
					return violation(out, "C18(e2e): with all default handlers allowed globally, style %q keeps the hostile declaration %s: %s", prop+": "+v, d.Prop, d.Value)
				}
			}
		}
	}
	return nil
}

type c18Result struct {
	prop    string
	seeds   int
	calls   int
	mutants int
	fail    *Case
}

func c18Handler(prop string, tier string, r *Rec) c18Result {
	h := css.GetDefaultHandler(prop)
	res := c18Result{prop: prop}
	call := func(v string) bool { res.calls++; return h(v) }
	seeds := map[string]bool{}
	vocab := map[string]bool{}
	// singles
	for _, a := range cssTokens {
		if call(a) {
			seeds[a] = true
			vocab[a] = true
		}
	}
	// pairs: full token set x full token set with a space; other separators over the accepted vocabulary
	for _, a := range cssTokens {
		for _, b := range cssTokens {
			if call(a + " " + b) {
				seeds[a+" "+b] = true
				vocab[a], vocab[b] = true, true
			}
		}
	}
	vl := make([]string, 0, len(vocab))
	for v := range vocab {
		vl = append(vl, v)
	}
	sort.Strings(vl)
	for _, a := range vl {
		for _, b := range vl {
			for _, sep := range []string{", ", ",", " / ", "/"} {
				if call(a + sep + b) {
					seeds[a+sep+b] = true
				}
			}
		}
	}
	// triples (and in the thorough tier quadruples) over the accepted vocabulary
	cap3 := 36
	if tier == "thorough" {
		cap3 = 70
	}
	v3 := vl
	if len(v3) > cap3 {
		// keep a spread of the vocabulary
		step := float64(len(v3)) / float64(cap3)
		var pick []string
		for i := 0; i < cap3; i++ {
			pick = append(pick, v3[int(float64(i)*step)])
		}
		v3 = pick
	}
	for _, a := range v3 {
		for _, b := range v3 {
			for _, c := range v3 {
				if call(a + " " + b + " " + c) {
					seeds[a+" "+b+" "+c] = true
				}
			}
		}
	}
	if tier == "thorough" {
		v4 := v3
		if len(v4) > 24 {
			v4 = v4[:24]
		}
		for _, a := range v4 {
			for _, b := range v4 {
				for _, c := range v4 {
					for _, d := range v4 {
						if call(a + " " + b + " " + c + " " + d) {
							seeds[a+" "+b+" "+c+" "+d] = true
						}
					}
				}
			}
		}
	}
	res.seeds = len(seeds)
	list := make([]string, 0, len(seeds))
	for s := range seeds {
		list = append(list, s)
	}
	// shortest first, then lexicographic: keeps a spread of 1-, 2-, 3-token seeds
	sort.Slice(list, func(i, j int) bool {
		if len(list[i]) != len(list[j]) {
			return len(list[i]) < len(list[j])
		}
		return list[i] < list[j]
	})
	maxSeeds := 90
	if tier == "thorough" {
		maxSeeds = 400
	}
	if len(list) > maxSeeds {
		// a third shortest, the rest spread over the remainder
		pick := append([]string{}, list[:maxSeeds/3]...)
		rest := list[maxSeeds/3:]
		n := maxSeeds - maxSeeds/3
		step := float64(len(rest)) / float64(n)
		for i := 0; i < n; i++ {
			pick = append(pick, rest[int(float64(i)*step)])
		}
		list = pick
	}
	var worst string
	found := false
	try := func(v string) {
		res.mutants++
		hv := hostileCSS(v)
		if hv {
			r.NonTrivial(prop+"\x00"+v, func() any { return map[string]any{"property": prop, "hostile_value": q(v), "accepted": false} })
		}
		if hv && call(v) {
			if !found || len(v) < len(worst) {
				worst, found = v, true
			}
		}
	}
	singles := []string{`\`, `<`, `>`, `@i`}
	for _, s := range list {
		for _, f := range hostileFrags {
			for pos := 0; pos <= len(s); pos++ {
				try(s[:pos] + f + s[pos:])
				try(s[:pos] + " " + f + " " + s[pos:])
			}
			for _, sep := range []string{", ", ",", " / ", "/", ";", " ", ":", "(", ")"} {
				try(s + sep + f)
				try(f + sep + s)
			}
			// replace each token
			toks := strings.Split(s, " ")
			for i := range toks {
				cp := append([]string{}, toks...)
				cp[i] = f
				try(strings.Join(cp, " "))
			}
		}
		// replace each single byte
		for pos := 0; pos < len(s); pos++ {
			for _, f := range singles {
				try(s[:pos] + f + s[pos+1:])
			}
		}
	}
	for _, f := range hostileFrags {
		try(f)
	}
	if found {
		res.fail = &Case{Prop: "C18", Strs: []BStr{BStr(prop), BStr(worst)}, Clause: "C18: the default handler for " + q(prop) + " accepts the hostile value " + q(worst)}
		return res
	}
	// end to end for a sample
	n := 0
	for _, s := range list {
		if n >= 6 {
			break
		}
		n++
		for _, f := range hostileFrags {
			for _, v := range []string{s + " " + f, f + " " + s, s + f, s[:len(s)/2] + f + s[len(s)/2:],
				s + `\2f* ` + f + ` \2a/`, s + ` \00002f* ` + f + ` \00002a/`, s + " /* " + f + " */", "/**/" + s + "/**/ " + f, s + `\20 ` + f} {
				res.mutants++
				if err := e2eStyle(prop, v); err != nil {
					res.fail = &Case{Prop: "C18", Kind: "e2e", Strs: []BStr{BStr(prop), BStr(v)}, Clause: err.Error()}
					return res
				}
			}
		}
		if err := e2eStyle(prop, s); err != nil {
			res.fail = &Case{Prop: "C18", Kind: "e2e", Strs: []BStr{BStr(prop), BStr(s)}, Clause: err.Error()}
			return res
		}
	}
	return res
}

func fixedC18(r *Rec, tier string, shard, nshards int) []*Case {
	var props []string
	for i, p := range cssProps {
		if i%nshards == shard {
			props = append(props, p)
		}
	}
	results := make([]c18Result, len(props))
	var wg sync.WaitGroup
	sem := make(chan struct{}, runtime.NumCPU())
	for i, p := range props {
		wg.Add(1)
		sem <- struct{}{}
		go func(i int, p string) {
			defer wg.Done()
			defer func() { <-sem }()
			results[i] = c18Handler(p, tier, r)
		}(i, p)
	}
	wg.Wait()
	var fails []*Case
	seedCounts := map[string]int{}
	var noSeeds []string
	totalCalls := 0
	for _, res := range results {
		seedCounts[res.prop] = res.seeds
		if res.seeds == 0 {
			noSeeds = append(noSeeds, res.prop)
		}
		totalCalls += res.calls + res.mutants
		if res.fail != nil {
			fails = append(fails, res.fail)
		}
	}
	// unknown properties: the lookup yields a handler that rejects everything
	if shard == 0 {
		for _, name := range []string{"nope", "", "colour", "behavior", "-moz-binding", "COLOR", "color ", "x-any"} {
			h := css.GetDefaultHandler(name)
			for _, v := range append(append([]string{"", "red", "1", "inherit", "initial", "none"}, cssTokens...), hostileFrags...) {
				totalCalls++
				if h(v) {
					fails = append(fails, &Case{Prop: "C18", Kind: "unknown", Strs: []BStr{BStr(name), BStr(v)}, Clause: "C18: the handler for the unknown property " + q(name) + " accepts " + q(v)})
					break
				}
			}
		}
	}
	wf, wcalls, free := keywordDictionaryStage(props)
	fails = append(fails, wf...)
	totalCalls += wcalls
	r.ClassN("keyword_dictionary_calls", wcalls)
	nf, ncalls := numberSpaceStage(props)
	fails = append(fails, nf...)
	totalCalls += ncalls
	r.ClassN("malformed_number_calls", ncalls)
	sf, scalls := structuralStage(props)
	fails = append(fails, sf...)
	totalCalls += scalls
	r.ClassN("structural_damage_calls", scalls)
	ef, ecalls := emptyComponentStage(props)
	fails = append(fails, ef...)
	totalCalls += ecalls
	r.ClassN("empty_component_calls", ecalls)
	cf, ccalls := nonASCIICaseStage(props)
	fails = append(fails, cf...)
	totalCalls += ccalls
	r.ClassN("non_ascii_case_calls", ccalls)
	jf, jcalls := edgeJunkStage(props, free)
	fails = append(fails, jf...)
	totalCalls += jcalls
	r.ClassN("edge_junk_calls", jcalls)
	nif, nicalls := numberInsideStage(props)
	fails = append(fails, nif...)
	totalCalls += nicalls
	if shard == 0 {
		ff, fcalls := functionOnlyStage()
		fails = append(fails, ff...)
		totalCalls += fcalls
		pf, pcalls := positionStage()
		fails = append(fails, pf...)
		totalCalls += pcalls
	}
	r.SetExtra("handlers_with_open_identifier_space", free)
	r.EvalN(totalCalls)
	r.SetExtra("handlers_checked", len(props))
	r.SetExtra("handlers_without_accepted_seed", noSeeds)
	r.SetExtra("sum_seeds_per_handler", seedCounts)
	sort.Slice(fails, func(i, j int) bool { return string(fails[i].Strs[0]) < string(fails[j].Strs[0]) })
	return fails
}

func init() { register(&Prop{ID: "C18", Check: checkC18, Fixed: fixedC18}) }
