package props

import (
	_ "embed"
	"strconv"
	"strings"

	"pgregory.net/rapid"
)

//go:embed corpus/repo_test_inputs.txt
var corpusFile string

// corpus: the `in:` literals of the repository's own test tables (harvested once with
// cmd/harvest), used as seeds for byte-level mutation and for the native fuzz targets.
var corpus = func() []string {
	var out []string
	for _, l := range strings.Split(corpusFile, "\n") {
		if l == "" {
			continue
		}
		if s, err := strconv.Unquote(l); err == nil {
			out = append(out, s)
		}
	}
	return out
}()

var spliceFrags = []string{"<script>", "</script>", "<!--", "-->", "<", ">", "\"", "'", "&", "&#x3c;", "\x00", "javascript:", " onerror=x", "<svg>", "<math>", "<style>", "</style>", "<![CDATA[", "]]>", "<plaintext>",
	"<a href=\"", "<b ", "/>", "=", "`", "\xff", "&#0;", "<title>", "</title>", "<textarea>", "<iframe>", "<noscript>", "<xmp>", "</xmp>", " style=\"", "<frame>", "<object>", "</object>"}

// genCorpusMutation: a corpus entry with a few byte flips, deletions, insertions of hostile
// fragments, splices with another entry or a truncation.
func genCorpusMutation(t *rapid.T) string {
	s := rapid.SampledFrom(corpus).Draw(t, "corpus")
	b := []byte(s)
	n := rapid.IntRange(0, 4).Draw(t, "nmut")
	for i := 0; i < n; i++ {
		switch rapid.IntRange(0, 5).Draw(t, "mut") {
		case 0:
			if len(b) > 0 {
				b[rapid.IntRange(0, len(b)-1).Draw(t, "pos")] = rapid.Byte().Draw(t, "byte")
			}
		case 1:
			if len(b) > 0 {
				p := rapid.IntRange(0, len(b)-1).Draw(t, "pos")
				b = append(b[:p:p], b[p+1:]...)
			}
		case 2, 3:
			p := rapid.IntRange(0, len(b)).Draw(t, "pos")
			f := rapid.SampledFrom(spliceFrags).Draw(t, "frag")
			b = append(b[:p:p], append([]byte(f), b[p:]...)...)
		case 4:
			o := rapid.SampledFrom(corpus).Draw(t, "corpus2")
			p := rapid.IntRange(0, len(b)).Draw(t, "pos")
			q := rapid.IntRange(0, len(o)).Draw(t, "pos2")
			b = append(b[:p:p], []byte(o[q:])...)
		default:
			if len(b) > 0 {
				b = b[:rapid.IntRange(0, len(b)).Draw(t, "cut")]
			}
		}
		if len(b) > 3000 {
			b = b[:3000]
		}
	}
	return string(b)
}
