package props

import (
	_ "embed"
	"os"
	"path/filepath"
	"regexp"
	"sort"
	"strings"

	"github.com/microcosm-cc/bluemonday/css"
)

// C18, first clause for closed keyword spaces: an identifier that a default handler accepts as
// the whole value must be a word of the CSS vocabulary. csswords.txt is the reference: the
// identifiers that occur in css/handlers.go at the pinned commit, each reviewed by hand against
// the CSS specifications (the four that are not CSS words were struck: two typos, two Go package
// names), plus words of the same value spaces the file lacks. Candidates come from the
// implementation itself — every identifier-shaped string literal of css/handlers.go in the tree
// under test, so that a misspelt or misplaced keyword is found wherever it sits — and from
// one-edit misspellings of the reference words.

//go:embed csswords.txt
var cssWordsFile string

var cssWords = func() map[string]bool {
	m := map[string]bool{}
	for _, w := range strings.Fields(cssWordsFile) {
		m[w] = true
	}
	return m
}()

var identLiteral = regexp.MustCompile(`"([a-z][a-z0-9-]*)"`)

func handlerLiterals() []string {
	b, err := os.ReadFile(filepath.Join(repoDir(), "css", "handlers.go"))
	if err != nil {
		return nil
	}
	set := map[string]bool{}
	for _, m := range identLiteral.FindAllStringSubmatch(string(b), -1) {
		set[m[1]] = true
	}
	out := make([]string, 0, len(set))
	for w := range set {
		out = append(out, w)
	}
	sort.Strings(out)
	return out
}

// misspellings: every word of the reference with one character dropped, doubled or swapped with
// its neighbour (deterministic, de-duplicated, reference words themselves removed)
func misspellings() []string {
	set := map[string]bool{}
	for w := range cssWords {
		for i := 0; i < len(w); i++ {
			set[w[:i]+w[i+1:]] = true
			set[w[:i+1]+w[i:]] = true
			if i+1 < len(w) {
				set[w[:i]+string(w[i+1])+string(w[i])+w[i+2:]] = true
			}
		}
	}
	out := []string{}
	for w := range set {
		if !cssWords[w] && w != "" {
			out = append(out, w)
		}
	}
	sort.Strings(out)
	return out
}

// cssNumberLike: strings made of digits, signs, dots and exponent letters; cssNumber: the <number>
// grammar of CSS Syntax Level 3, optionally followed by a unit made of letters or %.
var cssNumberLike = regexp.MustCompile(`^[0-9.+\-eE]+[a-z%]*$`)
var cssNumber = regexp.MustCompile(`^[+-]?([0-9]+|[0-9]*\.[0-9]+)([eE][+-]?[0-9]+)?([a-z]+|%)?$`)

var malformedNumbers = []string{"0.", "0.5.", "1.2.3", "...", "1.", "1..2", ".", "-", "+", "1e", "--1", "1-", "1.2.", "..1", "++1", "1+", "-.", "1.e3", "1e+", "1.px", "1.s", "1.2.3s", "..5em", "1..5%", "-", "1.ms", ".s", "+.px"}

// numberSpaceStage: a value that looks like a number (with or without unit) and is accepted must
// be a CSS number.
func numberSpaceStage(props []string) (fails []*Case, calls int) {
	for _, prop := range props {
		h := css.GetDefaultHandler(prop)
		if h("zzqqxx") {
			continue
		}
		for _, v := range malformedNumbers {
			calls++
			if cssNumberLike.MatchString(v) && !cssNumber.MatchString(v) && h(v) {
				fails = append(fails, &Case{Prop: "C18", Kind: "number", Strs: []BStr{BStr(prop), BStr(v)},
					Clause: "C18: the default handler for " + q(prop) + " accepts " + q(v) + ", which is not a CSS number"})
				break
			}
		}
	}
	return fails, calls
}

var digitThenDot = regexp.MustCompile(`[0-9]\.(?:[^0-9]|$)`)
var digitRun = regexp.MustCompile(`[0-9]+`)

// numberInsideStage: accepted seeds get a dot appended to one of their numbers ("1px" -> "1.px",
// "matrix(1,2,3,4,5,6)" -> "matrix(1.,2,3,4,5,6)"); a number cannot end in a dot anywhere in a CSS value.
func numberInsideStage(props []string) (fails []*Case, calls int) {
	pool := append(append([]string{}, cssTokens...), "matrix(1,2,3,4,5,6)", "1px 2px", "translate(1px,2px)", "rgb(1,2,3)", "cubic-bezier(0,0,1,1)", "steps(2,end)", "1 1 0", "0.5", "1", "100%", "1s", "10")
	for _, prop := range props {
		h := css.GetDefaultHandler(prop)
	seeds:
		for _, seed := range pool {
			if strings.ContainsAny(seed, "'\"") || strings.Contains(seed, "url(") || digitThenDot.MatchString(seed) {
				continue
			}
			calls++
			if !h(seed) {
				continue
			}
			for _, loc := range digitRun.FindAllStringIndex(seed, -1) {
				if loc[1] < len(seed) && (seed[loc[1]] == '.' || seed[loc[1]] >= '0' && seed[loc[1]] <= '9') {
					continue
				}
				if loc[0] > 0 && seed[loc[0]-1] == '.' && false {
					continue
				}
				v := seed[:loc[1]] + "." + seed[loc[1]:]
				calls++
				if h(v) {
					fails = append(fails, &Case{Prop: "C18", Kind: "number", Strs: []BStr{BStr(prop), BStr(v)},
						Clause: "C18: the default handler for " + q(prop) + " accepts " + q(v) + ", in which a number ends in a dot"})
					break seeds
				}
			}
		}
	}
	return fails, calls
}

// functionOnlyStage: filter and transform take keywords or a list of function calls, never a bare
// number, length or word.
var functionList = regexp.MustCompile(`^(?:none|initial|inherit|unset|(?:[a-z][a-z0-9-]*\([^()]*\)\s*)+)$`)

func functionOnlyStage() (fails []*Case, calls int) {
	for _, prop := range []string{"filter", "transform"} {
		h := css.GetDefaultHandler(prop)
		for _, v := range append(append([]string{}, cssTokens...), "0.5", "1", "50%", "1px", "red", "0", "1px 2px", "auto") {
			calls++
			if h(v) && !functionList.MatchString(v) {
				fails = append(fails, &Case{Prop: "C18", Kind: "function-only", Strs: []BStr{BStr(prop), BStr(v)},
					Clause: "C18: the default handler for " + q(prop) + " accepts " + q(v) + ", which is neither a keyword of that property nor a list of function calls"})
				break
			}
		}
	}
	return fails, calls
}

// structurallyImpossible: no CSS value has unbalanced parentheses, brackets or quotation marks,
// or contains '|' or a brace.
func structurallyImpossible(v string) bool {
	var st []byte
	var quote byte
	for i := 0; i < len(v); i++ {
		c := v[i]
		if quote != 0 {
			if c == quote {
				quote = 0
			}
			continue
		}
		switch c {
		case '\'', '"':
			quote = c
		case '(', '[':
			st = append(st, c)
		case ')', ']':
			if len(st) == 0 || (c == ')') != (st[len(st)-1] == '(') {
				return true
			}
			st = st[:len(st)-1]
		case '|', '{', '}':
			return true
		}
	}
	return quote != 0 || len(st) != 0
}

// structuralStage: every value a handler accepts among the token pool and the implementation's
// own literals is damaged in one place (a character dropped, or one of ( ) [ ] | ' " inserted);
// whatever is structurally impossible afterwards must be rejected.
func structuralStage(props []string) (fails []*Case, calls int) {
	pool := append(append([]string{}, cssTokens...), handlerLiterals()...)
	pool = append(pool, "translate(1px,2px)", "translate(1px)", "scale(2)", "skew(1deg)", "perspective(1px)", "rotate(45deg)", "1px 2px", "left top", "50% 50%", "1 1", "'a'", "\"a\"", "\"a\" \"b\"", "url(http://a/b.png)", "url('http://a/b.png')", "drop-shadow(1px 1px red)", "steps(1,end)", "cubic-bezier(0,0,1,1)", "rgb(1,2,3)", "hsl(0,0%,0%)", "disc url(http://a/b.png)", "1px solid red", "repeat(2, 1fr)", "minmax(1px, 2px)", "'\u00ab' '\u00bb'", "\"\u00ab\" \"\u00bb\"", "'a' 'b'", "'times'", "\"times\"", "'a b'")
	for _, prop := range props {
		h := css.GetDefaultHandler(prop)
	seeds:
		for _, seed := range pool {
			calls++
			if seed == "" || structurallyImpossible(seed) || !h(seed) {
				continue
			}
			for i := 0; i <= len(seed); i++ {
				var cands []string
				if i < len(seed) {
					cands = append(cands, seed[:i]+seed[i+1:])
				}
				for _, ins := range []string{"(", ")", "[", "]", "|", "'", "\""} {
					cands = append(cands, seed[:i]+ins+seed[i:])
					if i < len(seed) && strings.ContainsRune("()[]'\"", rune(seed[i])) {
						cands = append(cands, seed[:i]+ins+seed[i+1:]) // one bracket or quote replaced by another
					}
				}
				for _, v := range cands {
					if !structurallyImpossible(v) {
						continue
					}
					calls++
					if h(v) {
						fails = append(fails, &Case{Prop: "C18", Kind: "structure", Strs: []BStr{BStr(prop), BStr(v)},
							Clause: "C18: the default handler for " + q(prop) + " accepts " + q(v) + ", which no CSS value space contains (unbalanced bracket or quotation mark, or a '|')"})
						break seeds
					}
				}
			}
		}
	}
	return fails, calls
}

// hasEmptyComponent: the value is empty or blank, or one of its comma- or solidus-separated
// components is: no CSS value space contains such a value.
func hasEmptyComponent(v string) bool {
	if strings.Trim(v, " \t\n\f\r") == "" {
		return true
	}
	// a Unicode space at either end is no CSS white space: it is part of a (then unknown) word
	if t := strings.TrimSpace(v); t != strings.Trim(v, " \t\n\f\r") {
		return true
	}
	for _, sep := range []string{",", "/"} {
		if strings.Contains(v, sep) {
			for _, piece := range strings.Split(v, sep) {
				if strings.TrimSpace(piece) == "" {
					return true
				}
			}
		}
	}
	return false
}

// emptyComponentStage: the empty value, blank values, and accepted seeds joined by a doubled comma
// or solidus (or starting / ending in one) must be rejected by every handler.
func emptyComponentStage(props []string) (fails []*Case, calls int) {
	pool := append(append([]string{}, cssTokens...), "arial", "'times'", "1px", "red", "left", "1", "none", "auto", "a")
	for _, prop := range props {
		h := css.GetDefaultHandler(prop)
		cands := []string{"", " ", "\t", "  ", ",", "/", ", ,", "/ /", " , "}
		n := 0
		for _, seed := range pool {
			calls++
			if seed == "" || hasEmptyComponent(seed) || !h(seed) {
				continue
			}
			cands = append(cands, seed+",,"+seed, seed+",", ","+seed, seed+", ,"+seed, seed+"//"+seed, "/"+seed, seed+"/",
				"/ "+seed, seed+" /", seed+" / / "+seed, seed+"/ /"+seed, seed+",/"+seed, "\u00a0"+seed, seed+"\u00a0", seed+"\u2003")
			if n++; n >= 6 {
				break
			}
		}
		for _, v := range cands {
			calls++
			if hasEmptyComponent(v) && h(v) {
				fails = append(fails, &Case{Prop: "C18", Kind: "empty-component", Strs: []BStr{BStr(prop), BStr(v)},
					Clause: "C18: the default handler for " + q(prop) + " accepts " + q(v) + ", which is empty, has an empty component, or starts or ends in a Unicode space that is no CSS white space"})
				break
			}
		}
	}
	return fails, calls
}

// nonASCIICaseStage: CSS keywords are ASCII case-insensitive. An accepted seed in which a k or i
// is replaced by U+212A (Kelvin sign) or U+0130 - both of which Go's strings.ToLower turns into
// the ASCII letter - is not a word of any value space and must be rejected.
func nonASCIICaseStage(props []string) (fails []*Case, calls int) {
	pool := append(append([]string{}, cssTokens...), handlerLiterals()...)
	pool = append(pool, "pink", "black", "white", "khaki", "inline", "italic", "skew(1deg)", "block", "disc", "thick", "thin", "solid", "initial", "inherit", "lightpink", "break-word", "keep-all")
	for _, prop := range props {
		h := css.GetDefaultHandler(prop)
	seeds:
		for _, seed := range pool {
			calls++
			if !strings.ContainsAny(seed, "kiKI") || !h(seed) {
				continue
			}
			for i := 0; i < len(seed); i++ {
				var repl string
				switch seed[i] {
				case 'k', 'K':
					repl = "\u212a"
				case 'i', 'I':
					repl = "\u0130"
				default:
					continue
				}
				v := seed[:i] + repl + seed[i+1:]
				calls++
				if h(v) {
					fails = append(fails, &Case{Prop: "C18", Kind: "non-ascii-case", Strs: []BStr{BStr(prop), BStr(v)},
						Clause: "C18: the default handler for " + q(prop) + " accepts " + q(v) + ": a keyword with a non-ASCII letter that only Unicode lower-casing turns into the ASCII one"})
					break seeds
				}
			}
		}
	}
	return fails, calls
}

// edgeJunkStage: an accepted single word with another character glued to one of its edges (a grave
// accent, a combining mark, a letter) is another word; unless that word is itself in the CSS word
// dictionary the handler must reject it. (White space is trimmed from the edges, nothing else is.)
func edgeJunkStage(props []string, free []string) (fails []*Case, calls int) {
	allJunk := []string{"`", "\u030a", "\u030c", "\u0809", "\u0260", "I", "J", "L", "M", "i", "\u00e0", "@"}
	openSpace := map[string]bool{}
	for _, p := range free {
		openSpace[p] = true
	}
	pool := append(append([]string{}, cssTokens...), "red", "left", "serif", "none", "auto", "block", "1px", "bold", "initial")
	for _, prop := range props {
		h := css.GetDefaultHandler(prop)
		junk := allJunk
		if openSpace[prop] {
			// the handler takes author-defined names (font families, animation or grid-area names):
			// letters and non-ASCII characters make other names, only a non-name character is junk
			junk = []string{"`", "@"}
		}
		n := 0
	seeds:
		for _, seed := range pool {
			calls++
			if seed == "" || strings.ContainsAny(seed, " ,/()'\"") || !h(seed) {
				continue
			}
			for _, j := range junk {
				for _, v := range []string{j + seed, seed + j, j + seed + j} {
					calls++
					if cssWords[asciiLower(v)] || cssNumber.MatchString(v) {
						continue
					}
					if h(v) {
						fails = append(fails, &Case{Prop: "C18", Kind: "edge-junk", Strs: []BStr{BStr(prop), BStr(v)},
							Clause: "C18: the default handler for " + q(prop) + " accepts " + q(v) + ": an accepted word with another character glued to its edge"})
						break seeds
					}
				}
			}
			if n++; n >= 4 {
				break
			}
		}
	}
	return fails, calls
}

// positionStage: two keywords of the same axis are not a position.
func positionStage() (fails []*Case, calls int) {
	for _, prop := range []string{"background-position", "object-position", "perspective-origin", "transform-origin"} {
		h := css.GetDefaultHandler(prop)
		for _, v := range []string{"left right", "right left", "top bottom", "bottom top", "left left", "top top"} {
			calls++
			if h(v) {
				fails = append(fails, &Case{Prop: "C18", Kind: "position", Strs: []BStr{BStr(prop), BStr(v)},
					Clause: "C18: the default handler for " + q(prop) + " accepts " + q(v) + ": two keywords of the same axis are not a position"})
				break
			}
		}
	}
	return fails, calls
}

// keywordDictionaryStage returns one failing case per (property, word) and the number of handler calls.
func keywordDictionaryStage(props []string) (fails []*Case, calls int, free []string) {
	cands := append(handlerLiterals(), misspellings()...)
	for _, prop := range props {
		h := css.GetDefaultHandler(prop)
		// handlers that take arbitrary identifiers (font names, animation names, ...) have an open
		// value space: nothing to say about them here
		if h("zzqqxx") || h("qx-zzq") {
			free = append(free, prop)
			continue
		}
		for _, w := range cands {
			calls++
			if h(w) && !cssWords[w] {
				fails = append(fails, &Case{Prop: "C18", Kind: "word", Strs: []BStr{BStr(prop), BStr(w)},
					Clause: "C18: the default handler for " + q(prop) + " accepts " + q(w) + ", which is not a word of any CSS value space"})
				break
			}
		}
	}
	return fails, calls, free
}
