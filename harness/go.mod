module verifharness

go 1.23

require (
	github.com/aymerick/douceur v0.2.0
	github.com/microcosm-cc/bluemonday v0.0.0
	golang.org/x/net v0.26.0
	pgregory.net/rapid v1.3.0
)

require github.com/gorilla/css v1.0.1 // indirect

replace github.com/microcosm-cc/bluemonday => /repo
